import VyxalModel.Lemmas.Closure
import VyxalModel.Proofs.C05
/-!
# Token-level simulation lemmas and the structural induction for the closure-free fragment (C01, stage 2)
-/
namespace Vy.Sem
open Vy PyAst

variable {env : TEnv} {A : Option Val}

/-! ### tokens -/

theorem digits_parts (ds : Str) (hne : ds ≠ []) (hd : ds.all isDigit = true) :
    numberParts ds = ds ∧ numberUsesRational ds = false := by
  have hreal : C05.RealLiteral ds := by
    intro c hc; left
    have := List.all_eq_true.mp hd c hc
    simpa [isDigit, isDig] using this
  have hnd : ds ≠ [cDot] := by
    intro he; subst he; simp [isDigit, cDot] at hd
  refine ⟨C05.number_parts_plain ds hreal hnd, ?_⟩
  rw [C05.uses_rational_iff ds hreal hnd]
  cases hc : ds.contains cDot with
  | false => rfl
  | true =>
    have hm : cDot ∈ ds := by simpa using hc
    have := List.all_eq_true.mp hd cDot hm
    simp [isDigit, cDot] at this

theorem eval_nsimplify (cfg : Cfg) (n : Nat) (ds : Str) (π : PSt) (hne : ds ≠ []) (hd : ds.all isDigit = true) :
    evalE cfg n (.call (.attr (.name "sympy") "nsimplify") [.cstrN ds] []) π = .ok (.int (natOfDigits ds), π) := by
  simp [evalE, hne, hd]

theorem lookupElem_eq_lookupEntry (tbl : List Gen.Entry) (k : Str) : lookupElem tbl k = lookupEntry tbl k := rfl

/-- an element whose entry is the `process_element` boilerplate of a first-order function -/
theorem sim_elem {σ : RSt} {π : PSt} (cfg : Cfg) (n : Nat) (key : Str) (e : Gen.Entry) (body : List PyStmt)
    (hl : lookupElem cfg.elements key = some e) (hok : elemOK e = true) (hb : e.body = some body) (h : Rel env A σ π)
    (sg : Sig) (σ' : RSt) (hr : execElem cfg n key σ = .ok (sg, σ')) :
    ∃ π', execPL cfg n body π = .ok (sigP sg, π') ∧ Post env A sg σ' π' := by
  simp only [elemOK, Bool.and_eq_true, beq_iff_eq, decide_eq_true_eq, Bool.not_eq_true', bne_iff_ne, ne_eq, Option.isNone_iff_eq_none] at hok
  obtain ⟨⟨⟨⟨⟨⟨hkind, h0⟩, h3⟩, hbp⟩, hsp⟩, hj⟩, hs⟩ := hok
  rw [hb] at hbp
  have hbody := isBoilerplate_sound body _ _ (by simpa using hbp)
  have hk3 : e.arity.toNat ≤ 3 := by omega
  have hjn : e.helper ∉ junkNames := by
    intro hm; have : junkNames.contains e.helper = true := by simpa using hm
    rw [this] at hj; exact absurd hj (by decide)
  unfold execElem at hr
  simp only [hl, hkind, ↓reduceIte, toNatArity] at hr
  have hnn : ¬ (e.arity < 0) := by omega
  simp only [hnn, ↓reduceIte, R_ok_bind] at hr
  split at hr
  · -- a function value among the arguments: the reference semantics has no meaning for this helper
    exfalso
    split at hr
    next h1 _ => rw [h1] at hsp; exact absurd hsp (by decide)
    next h1 _ => rw [h1] at hsp; exact absurd hsp (by decide)
    next h1 _ => rw [h1] at hsp; exact absurd hsp (by decide)
    next h1 _ => rw [h1] at hsp; exact absurd hsp (by decide)
    next => simp at hr
  · rename_i hfn
    have hnho : ¬ (e.helper = "vy_map" ∨ e.helper = "vy_filter" ∨ e.helper = "sort_by" ∨ e.helper = "vy_reduce") := by
      intro hh
      rcases hh with h1 | h1 | h1 | h1 <;> rw [h1] at hsp <;> exact absurd hsp (by decide)
    simp only [hnho, ↓reduceIte] at hr
    cases hel : elemFn e.helper (σ.popK e.arity.toNat).1.reverse with
    | error er => simp [hel] at hr
    | ok r =>
      simp only [hel, R_ok_bind] at hr
      simp at hr; obtain ⟨h1, h2⟩ := hr; subst h1; subst h2
      have hnf : ∀ x ∈ (σ.popK e.arity.toNat).1, isFnVal x = false := by
        intro x hx
        cases x with
        | fn id =>
          exfalso; apply hfn
          simp only [List.any_eq_true]
          exact ⟨.fn id, by simpa using hx, rfl⟩
        | _ => rfl
      obtain ⟨π', he, hR⟩ := exec_boilerplate cfg n h e.arity.toNat hk3 e.helper r hsp hjn hs hnf hel
      exact ⟨π', by rw [hbody, he]; rfl, hR⟩



theorem exec_pass (cfg : Cfg) (n : Nat) (π : PSt) : execPL cfg n [.pass] π = .ok (.normal, π) := by
  simp [execPL, execPS]

theorem sim_tok {σ : RSt} {π : PSt} (cfg : Cfg) (env : TEnv) (hE : cfg.elements = env.elements) (n : Nat)
    (hsim : ∀ m, n = m + 1 → SimAt cfg env m) (t : Token)
    (hf : fragTok env.elements t = true) (code : List PyStmt) (ht : transpileToken env t = .ok code)
    (h : Rel env A σ π) (sg : Sig) (σ' : RSt) (hr : execTok cfg n t σ = .ok (sg, σ')) :
    ∃ π', execPL cfg n code π = .ok (sigP sg, π') ∧ Post env A sg σ' π' := by
  unfold execTok at hr
  unfold transpileToken at ht
  unfold fragTok at hf
  cases hk : t.kind <;> simp only [hk] at hr ht hf
  case number =>
    split at hr
    · rename_i hd
      simp at hr ht; obtain ⟨h1, h2⟩ := hr; subst h1; subst h2; subst ht
      obtain ⟨hp, hu⟩ := digits_parts t.value hd.1 (by simpa using hd.2)
      rw [hp, hu]
      obtain ⟨he, hR⟩ := exec_push cfg n _ _ (eval_nsimplify cfg n t.value π hd.1 (by simpa using hd.2)) h
      exact ⟨_, by simp [execPL_cons, he, execPL, sigP], hR⟩
    · simp at hr
  case general =>
    rw [← hE, ← lookupElem_eq_lookupEntry] at ht
    rw [← hE] at hf
    cases hl : lookupElem cfg.elements t.value with
    | none =>
      simp only [hl] at ht
      unfold execElem at hr
      simp [hl] at hr ht; obtain ⟨h1, h2⟩ := hr; subst h1; subst h2; subst ht
      exact ⟨π, by simp [exec_pass, sigP], h⟩
    | some e =>
      simp only [hl] at ht hf
      cases hb : e.body with
      | none => simp [hb] at ht
      | some b =>
        simp [hb] at ht; subst ht
        by_cases hok : elemOK e = true
        · exact sim_elem cfg n t.value e b hl hok hb h sg σ' hr
        by_cases hho : hoElemOK e = true
        · exact sim_hoElem cfg n hsim t.value e b hl hho hb h sg σ' hr
        have hcases : coreEntryOK t.value e = true ∨ callEntryOK t.value e = true := by
          cases h1 : elemOK e <;> cases h2 : hoElemOK e <;> simp_all
        rcases hcases with hco | hca
        · unfold coreEntryOK at hco
          simp only [Bool.and_eq_true, bne_iff_ne, ne_eq] at hco
          obtain ⟨hkind, hcb⟩ := hco
          unfold execElem at hr
          simp only [hl, hkind, ↓reduceIte] at hr
          match hv : t.value, hcb with
          | [c], hcb =>
            rw [hb] at hcb
            simp only [hv, keyCh] at hr
            exact sim_core cfg n c b hcb h sg hr
        · unfold callEntryOK at hca
          simp only [Bool.and_eq_true, bne_iff_ne, ne_eq, beq_iff_eq] at hca
          obtain ⟨⟨hkind, hkey⟩, hcb⟩ := hca
          unfold execElem at hr
          simp only [hl, hkind, ↓reduceIte] at hr
          simp only [hkey, keyCh] at hr
          rw [hb] at hcb
          rw [isTmpl8224_sound b hcb]
          exact sim_core_call cfg n hsim h sg hr
  case vget =>
    cases hv : t.value with
    | nil =>
      simp only [hv] at hr ht
      simp at hr ht; obtain ⟨h1, h2⟩ := hr; subst h1; subst h2; subst ht
      have hev : evalE cfg n (.attr ctxE "ghost_variable") π = .ok (σ.ghost, π) := by
        simp [evalE, ctxE, isCtxName, h.ghost]
      obtain ⟨he, hR⟩ := exec_push cfg n _ _ hev h
      exact ⟨_, by simp [execPL_cons, he, execPL, sigP], hR⟩
    | cons c cs =>
      simp only [hv] at hr ht
      by_cases hc : c = 95
      · simp [hc] at hr
      · simp only [hc, ↓reduceIte] at hr ht
        by_cases hln : isLoopName (c :: cs) = true
        · simp [hln] at hr
        · simp only [hln, Bool.false_eq_true, ↓reduceIte] at hr
          cases hfu : lookupKV (c :: cs) σ.funcs with
          | some _ => simp [hfu] at hr
          | none =>
            simp only [hfu, Option.isSome_none, Bool.false_eq_true, ↓reduceIte] at hr
            have hgv := h.getVar_prog (c :: cs) (by simp) (by simpa using hln) hfu
            cases hpa : lookupKV (c :: cs) σ.params with
            | some v =>
              simp only [hpa] at hr hgv
              simp at hr ht; obtain ⟨h1, h2⟩ := hr; subst h1; subst h2; subst ht
              have hev : evalE cfg n (.pname "VAR_" (c :: cs)) π = .ok (v, π) := by simp [evalE, hgv]
              obtain ⟨he, hR⟩ := exec_push cfg n _ _ hev h
              exact ⟨_, by simp [execPL_cons, he, execPL, sigP], hR⟩
            | none =>
              simp only [hpa] at hr hgv
              split at hr
              · simp at hr
              · cases hg : lookupKV (c :: cs) σ.globals with
                | none => simp [hg] at hr
                | some v =>
                  simp only [hg] at hr hgv
                  simp at hr ht; obtain ⟨h1, h2⟩ := hr; subst h1; subst h2; subst ht
                  have hev : evalE cfg n (.pname "VAR_" (c :: cs)) π = .ok (v, π) := by simp [evalE, hgv]
                  obtain ⟨he, hR⟩ := exec_push cfg n _ _ hev h
                  exact ⟨_, by simp [execPL_cons, he, execPL, sigP], hR⟩
  case vset =>
    cases hv : t.value with
    | nil =>
      simp only [hv] at hr ht
      simp at hr ht; obtain ⟨h1, h2⟩ := hr; subst h1; subst h2; subst ht
      refine ⟨{ popPi σ π 1 with ghost := σ.pop1.1 }, ?_, ?_⟩
      · simp [execPL_cons, execPS, assign1, eval_pop1kw cfg n h, assignTo, ctxE, execPL, sigP]
      · exact (rel_pop1 h).setGhost _
    | cons c cs =>
      simp only [hv] at hr ht
      by_cases hc : c = 95
      · simp [hc] at hr
      · simp only [hc, ↓reduceIte] at hr ht
        by_cases hln : isLoopName (c :: cs) = true
        · simp [hln] at hr
        · simp only [hln, Bool.false_eq_true, ↓reduceIte] at hr
          cases hfu : lookupKV (c :: cs) σ.funcs with
          | some _ => simp [hfu] at hr
          | none =>
            simp only [hfu, Option.isSome_none, Bool.false_eq_true, ↓reduceIte] at hr
            by_cases hdp : σ.depth > 0
            · simp [hdp] at hr
            · simp only [hdp, ↓reduceIte] at hr
              simp at hr ht; obtain ⟨h1, h2⟩ := hr; subst h1; subst h2; subst ht
              have hd0 : σ.pop1.2.depth = 0 := by rw [pop1_depth]; omega
              refine ⟨(popPi σ π 1).setVar ("VAR_", c :: cs) σ.pop1.1, ?_, ?_⟩
              · simp [execPL_cons, execPS, assign1, eval_pop1kw cfg n h, assignTo, execPL, sigP]
              · have hfu' : lookupKV (c :: cs) σ.pop1.2.funcs = Option.none := by
                  have : σ.pop1.2.funcs = σ.funcs := by simp only [RSt.pop1]; split <;> rfl
                  rw [this]; exact hfu
                exact (rel_pop1 h).setProgVar hd0 (c :: cs) (by simp) _ hfu'
  all_goals simp at hf



theorem sim_brk {σ : RSt} {π : PSt} (cfg : Cfg) (n : Nat) (p : Parent) (h : Rel env A σ π) (sg : Sig) (σ' : RSt)
    (hr : execS cfg n (.brk p) σ = .ok (sg, σ')) :
    ∃ π', execPL cfg n (breakTemplate p) π = .ok (sigP sg, π') ∧ Post env A sg σ' π' := by
  by_cases hp : p = .lam
  · subst hp; exact sim_brk_lam cfg n h sg σ' hr
  unfold execS at hr
  cases p <;> simp only [breakTemplate] at hr ⊢ <;> try (exact absurd rfl hp)
  all_goals first
    | (simp at hr; obtain ⟨h1, h2⟩ := hr; subst h1; subst h2
       exact ⟨π, by simp [execPL, execPS, sigP], h⟩)
    | (split at hr
       · simp at hr
       · rename_i hne
         simp at hr; obtain ⟨h1, h2⟩ := hr; subst h1; subst h2
         match hc : σ.ctxVals with
         | [] => simp [hc] at hne
         | x :: r =>
           have hpc : π.ctxVals = x :: r := by rw [h.ctxVals, hc]
           refine ⟨{ π with ctxVals := r }, ?_, ?_⟩
           · simp [execPL_cons, exec_ctxPop cfg n π x r hpc, execPS, execPL, sigP]
           · exact ⟨{ σ with ctxVals := r }, by simp [RSt.dropCtx, hc], h.setCtxVals r⟩)

theorem sim_recurse {σ : RSt} {π : PSt} (cfg : Cfg) (n : Nat) (p : Parent) (h : Rel env A σ π) (sg : Sig) (σ' : RSt)
    (hr : execS cfg n (.recurse p) σ = .ok (sg, σ')) :
    ∃ π', execPL cfg n (recurseTemplate p) π = .ok (sigP sg, π') ∧ Post env A sg σ' π' := by
  unfold execS at hr
  cases p <;> simp only [recurseTemplate] at hr ⊢
  all_goals first
    | (simp at hr; done)
    | (simp at hr; obtain ⟨h1, h2⟩ := hr; subst h1; subst h2
       exact ⟨π, by simp [execPL, execPS, sigP], h⟩)
    | (split at hr
       · simp at hr
       · rename_i hne
         simp at hr; obtain ⟨h1, h2⟩ := hr; subst h1; subst h2
         match hc : σ.ctxVals with
         | [] => simp [hc] at hne
         | x :: r =>
           have hpc : π.ctxVals = x :: r := by rw [h.ctxVals, hc]
           refine ⟨{ π with ctxVals := r }, ?_, ?_⟩
           · simp [execPL_cons, exec_ctxPop cfg n π x r hpc, execPS, execPL, sigP]
           · exact ⟨{ σ with ctxVals := r }, by simp [RSt.dropCtx, hc], h.setCtxVals r⟩)
    | (cases hp : printText (.list σ.stack.reverse) with
       | error e => simp [hp] at hr
       | ok s =>
         simp [hp] at hr; obtain ⟨h1, h2⟩ := hr; subst h1; subst h2
         refine ⟨π.print (s ++ "\n"), ?_, h.print _⟩
         simp [execPL_cons, execPS, nm, stackE, kwCtx, ctxE, evalE, evalSpecial, h.getStack, endOf, kwGet, printPy, hp, execPL, sigP])



theorem execPL_orPass (cfg : Cfg) (n : Nat) (a : List PyStmt) (π : PSt) : execPL cfg n (orPass a) π = execPL cfg n a π := by
  unfold orPass
  cases a with
  | nil => simp [execPL, execPS]
  | cons s r => simp

theorem sims_orPass {cfg : Cfg} {n : Nat} {l : List Structure} {a : List PyStmt} (h : Sims cfg env n l a) : Sims cfg env n l (orPass a) := by
  intro σ π sg σ' hR hr
  rw [execPL_orPass]; exact h σ π sg σ' hR hr

theorem All2.imp {α β} {R S : α → β → Prop} (hRS : ∀ a b, R a b → S a b) : ∀ {as : List α} {bs : List β}, All2 R as bs → All2 S as bs
  | _, _, .nil => .nil
  | _, _, .cons h t => .cons (hRS _ _ h) (All2.imp hRS t)

theorem eval_iterable_pop {σ : RSt} {π : PSt} (cfg : Cfg) (n : Nat) (h : Rel env A σ π) (xs : List Val)
    (hx : iterRange cfg σ.pop1.1 = .ok xs) :
    evalE cfg n (callN "iterable" [pop1kw, nm "range", ctxE]) π = .ok (.list xs, popPi σ π 1) := by
  simp [callN, nm, evalE, evalSpecial, eval_pop1kw cfg n h, hx]



/-! ### the structural induction -/


/-! ### whole programs -/

theorem rel_init (flags : String) (inputs : List Val) : Rel env Option.none (initState flags inputs) (initPy flags inputs) := by
  refine ⟨rfl, fun _ => rfl, ?_, rfl, rfl, rfl, rfl, rfl, rfl, rfl, rfl, rfl, rfl, ?_, ?_, ?_, rfl, ?_, ?_, ?_, ?_⟩
  · by_cases hH : flags.contains 'H' <;> simp [initPy, initState, PSt.getVar, lookupP, hH]
  · intro x hx hl _
    simp [initPy, initState, lookupP, lookupKV]
  · intro hpos; simp [initState] at hpos
  · intro f hj hs
    simp only [initPy, PSt.getVar, lookupP]
    have : ((("stack" : String), ([] : List Nat)) = (f, [])) = False := by
      simp; exact fun h => hs h.symm
    simp [this]
  · intro id rf hid; simp [initState] at hid
  · simp [initPy, PSt.getVar, lookupP]
  · simp [initPy, lookupP]
  · intro name ps body hf; simp [initState, lookupKV] at hf

theorem pop1_printed (σ : RSt) : σ.pop1.2.printed = σ.printed := by
  simp only [RSt.pop1]; split <;> rfl
theorem pop1_out (σ : RSt) : σ.pop1.2.out = σ.out := by
  simp only [RSt.pop1]; split <;> rfl

theorem finish_sim {σ σ' : RSt} {π : PSt} (flags : String) (h : Rel env A σ π) (hf : finish flags σ = .ok σ') :
    ∃ π', finishPy flags π = .ok π' ∧ π'.out = σ'.out := by
  unfold finish at hf
  unfold finishPy
  rw [h.getStack]
  simp only [popPy_rev, h.inputs]
  have hp := popK_one σ
  have hpn : (popN 1 σ.stack σ.inputs).1 = [σ.pop1.1] := by simpa [RSt.popK] using hp.1
  have hp2 : (popN 1 σ.stack σ.inputs).2.1 = σ.pop1.2.stack := by
    have := hp.2; simp [RSt.popK] at this; rw [← this]
  simp only [hpn, List.headD_cons, hp2, List.reverse_reverse, List.isEmpty_reverse]
  cases ho : List.foldlM (fun o c => applyFlag σ.stack.isEmpty σ.pop1.2.stack c o) (OutV.val σ.pop1.1) flags.toList with
  | error e => simp [ho] at hf
  | ok o =>
    simp only [ho, R_ok_bind, pop1_printed, h.printed.symm] at hf ⊢
    split at hf
    · rename_i hc
      simp only [hc, ↓reduceIte]
      cases o with
      | text s =>
        simp at hf; subst hf
        exact ⟨_, rfl, by simp [PSt.print, RSt.print, pop1_out, h.out]⟩
      | val v =>
        simp only at hf ⊢
        cases hp : printText v with
        | error e => simp [hp] at hf
        | ok s =>
          simp [hp] at hf ⊢; subst hf
          simp [PSt.print, RSt.print, pop1_out, h.out]
    · rename_i hc
      simp only [hc, ↓reduceIte]
      simp at hf; subst hf
      exact ⟨_, rfl, by simp [pop1_out, h.out]⟩


end Vy.Sem
