import VyxalModel.Lemmas.PyBasic
/-!
# The hand-written templates of the closed core

`tmpl<c>` is the template the element table is *expected* to hold for the element with code point `c` (written down
here by hand, from the table as it was when the proofs were made); `isTmpl<c>` recognises it, `coreOK` checks the
regenerated table against all of them.  A changed template makes `coreOK Gen.elements` false: the obligation breaks
and the check searches for a program on which the element now misbehaves.
-/
namespace Vy.Sem
open Vy PyAst

/-- `¬` -/
def tmpl172 : List PyStmt := [(.assign [(.name "lhs")] (.call (.name "pop") [(.name "stack"), (.cint (1)), (.name "ctx")] [])), (.expr (.call (.attr (.name "stack") "append") [(.call (.attr (.name "sympy") "nsimplify") [(.call (.name "int") [(.unary "Not" (.name "lhs"))] [])] [])] []))]
def isTmpl172 : List PyStmt → Bool
  | [(.assign [(.name "lhs")] (.call (.name "pop") [(.name "stack"), (.cint (1)), (.name "ctx")] [])), (.expr (.call (.attr (.name "stack") "append") [(.call (.attr (.name "sympy") "nsimplify") [(.call (.name "int") [(.unary "Not" (.name "lhs"))] [])] [])] []))] => true
  | _ => false
theorem isTmpl172_sound (b : List PyStmt) (h : isTmpl172 b = true) : b = tmpl172 := by
  unfold isTmpl172 at h; split at h <;> first | rfl | simp at h

/-- `!` -/
def tmpl33 : List PyStmt := [(.assign [(.name "_")] (.call (.name "pop") [(.name "stack"), (.cint (0)), (.name "ctx")] [])), (.expr (.call (.attr (.name "stack") "append") [(.call (.name "len") [(.name "stack")] [])] []))]
def isTmpl33 : List PyStmt → Bool
  | [(.assign [(.name "_")] (.call (.name "pop") [(.name "stack"), (.cint (0)), (.name "ctx")] [])), (.expr (.call (.attr (.name "stack") "append") [(.call (.name "len") [(.name "stack")] [])] []))] => true
  | _ => false
theorem isTmpl33_sound (b : List PyStmt) (h : isTmpl33 b = true) : b = tmpl33 := by
  unfold isTmpl33 at h; split at h <;> first | rfl | simp at h

/-- `"` -/
def tmpl34 : List PyStmt := [(.assign [(.tuple [(.name "rhs"), (.name "lhs")])] (.call (.name "pop") [(.name "stack"), (.cint (2)), (.name "ctx")] [])), (.expr (.call (.attr (.name "stack") "append") [(.list [(.name "lhs"), (.name "rhs")])] []))]
def isTmpl34 : List PyStmt → Bool
  | [(.assign [(.tuple [(.name "rhs"), (.name "lhs")])] (.call (.name "pop") [(.name "stack"), (.cint (2)), (.name "ctx")] [])), (.expr (.call (.attr (.name "stack") "append") [(.list [(.name "lhs"), (.name "rhs")])] []))] => true
  | _ => false
theorem isTmpl34_sound (b : List PyStmt) (h : isTmpl34 b = true) : b = tmpl34 := by
  unfold isTmpl34 at h; split at h <;> first | rfl | simp at h

/-- `$` -/
def tmpl36 : List PyStmt := [(.assign [(.tuple [(.name "rhs"), (.name "lhs")])] (.call (.name "pop") [(.name "stack"), (.cint (2)), (.name "ctx")] [])), (.expr (.call (.attr (.name "stack") "append") [(.name "rhs")] [])), (.expr (.call (.attr (.name "stack") "append") [(.name "lhs")] []))]
def isTmpl36 : List PyStmt → Bool
  | [(.assign [(.tuple [(.name "rhs"), (.name "lhs")])] (.call (.name "pop") [(.name "stack"), (.cint (2)), (.name "ctx")] [])), (.expr (.call (.attr (.name "stack") "append") [(.name "rhs")] [])), (.expr (.call (.attr (.name "stack") "append") [(.name "lhs")] []))] => true
  | _ => false
theorem isTmpl36_sound (b : List PyStmt) (h : isTmpl36 b = true) : b = tmpl36 := by
  unfold isTmpl36 at h; split at h <;> first | rfl | simp at h

/-- `,` -/
def tmpl44 : List PyStmt := [(.assign [(.name "top")] (.call (.name "pop") [(.name "stack"), (.cint (1)), (.name "ctx")] [])), (.expr (.call (.name "vy_print") [(.name "top")] [("ctx", (.name "ctx"))]))]
def isTmpl44 : List PyStmt → Bool
  | [(.assign [(.name "top")] (.call (.name "pop") [(.name "stack"), (.cint (1)), (.name "ctx")] [])), (.expr (.call (.name "vy_print") [(.name "top")] [("ctx", (.name "ctx"))]))] => true
  | _ => false
theorem isTmpl44_sound (b : List PyStmt) (h : isTmpl44 b = true) : b = tmpl44 := by
  unfold isTmpl44 at h; split at h <;> first | rfl | simp at h

/-- `:` -/
def tmpl58 : List PyStmt := [(.assign [(.name "top")] (.call (.name "pop") [(.name "stack"), (.cint (1)), (.name "ctx")] [])), (.expr (.call (.attr (.name "stack") "append") [(.call (.name "deep_copy") [(.name "top")] [])] [])), (.expr (.call (.attr (.name "stack") "append") [(.name "top")] []))]
def isTmpl58 : List PyStmt → Bool
  | [(.assign [(.name "top")] (.call (.name "pop") [(.name "stack"), (.cint (1)), (.name "ctx")] [])), (.expr (.call (.attr (.name "stack") "append") [(.call (.name "deep_copy") [(.name "top")] [])] [])), (.expr (.call (.attr (.name "stack") "append") [(.name "top")] []))] => true
  | _ => false
theorem isTmpl58_sound (b : List PyStmt) (h : isTmpl58 b = true) : b = tmpl58 := by
  unfold isTmpl58 at h; split at h <;> first | rfl | simp at h

/-- `?` -/
def tmpl63 : List PyStmt := [(.assign [(.attr (.name "ctx") "use_top_input")] (.cbool true)), (.assign [(.name "lhs")] (.call (.name "get_input") [(.name "ctx")] [])), (.assign [(.attr (.name "ctx") "use_top_input")] (.cbool false)), (.expr (.call (.attr (.name "stack") "append") [(.name "lhs")] []))]
def isTmpl63 : List PyStmt → Bool
  | [(.assign [(.attr (.name "ctx") "use_top_input")] (.cbool true)), (.assign [(.name "lhs")] (.call (.name "get_input") [(.name "ctx")] [])), (.assign [(.attr (.name "ctx") "use_top_input")] (.cbool false)), (.expr (.call (.attr (.name "stack") "append") [(.name "lhs")] []))] => true
  | _ => false
theorem isTmpl63_sound (b : List PyStmt) (h : isTmpl63 b = true) : b = tmpl63 := by
  unfold isTmpl63 at h; split at h <;> first | rfl | simp at h

/-- `D` -/
def tmpl68 : List PyStmt := [(.assign [(.name "top")] (.call (.name "pop") [(.name "stack"), (.cint (1)), (.name "ctx")] [])), (.expr (.call (.attr (.name "stack") "append") [(.name "top")] [])), (.expr (.call (.attr (.name "stack") "append") [(.call (.name "deep_copy") [(.name "top")] [])] [])), (.expr (.call (.attr (.name "stack") "append") [(.call (.name "deep_copy") [(.name "top")] [])] []))]
def isTmpl68 : List PyStmt → Bool
  | [(.assign [(.name "top")] (.call (.name "pop") [(.name "stack"), (.cint (1)), (.name "ctx")] [])), (.expr (.call (.attr (.name "stack") "append") [(.name "top")] [])), (.expr (.call (.attr (.name "stack") "append") [(.call (.name "deep_copy") [(.name "top")] [])] [])), (.expr (.call (.attr (.name "stack") "append") [(.call (.name "deep_copy") [(.name "top")] [])] []))] => true
  | _ => false
theorem isTmpl68_sound (b : List PyStmt) (h : isTmpl68 b = true) : b = tmpl68 := by
  unfold isTmpl68 at h; split at h <;> first | rfl | simp at h

/-- `W` -/
def tmpl87 : List PyStmt := [(.assign [(.name "temp")] (.call (.name "list") [(.call (.name "deep_copy") [(.name "stack")] [])] [])), (.expr (.call (.name "pop") [(.name "stack"), (.call (.name "len") [(.name "stack")] []), (.name "ctx")] [])), (.expr (.call (.attr (.name "stack") "append") [(.name "temp")] []))]
def isTmpl87 : List PyStmt → Bool
  | [(.assign [(.name "temp")] (.call (.name "list") [(.call (.name "deep_copy") [(.name "stack")] [])] [])), (.expr (.call (.name "pop") [(.name "stack"), (.call (.name "len") [(.name "stack")] []), (.name "ctx")] [])), (.expr (.call (.attr (.name "stack") "append") [(.name "temp")] []))] => true
  | _ => false
theorem isTmpl87_sound (b : List PyStmt) (h : isTmpl87 b = true) : b = tmpl87 := by
  unfold isTmpl87 at h; split at h <;> first | rfl | simp at h

/-- `^` -/
def tmpl94 : List PyStmt := [(.augAssign (.name "stack") .add (.call (.name "wrapify") [(.name "stack"), (.call (.name "len") [(.name "stack")] []), (.name "ctx")] []))]
def isTmpl94 : List PyStmt → Bool
  | [(.augAssign (.name "stack") .add (.call (.name "wrapify") [(.name "stack"), (.call (.name "len") [(.name "stack")] []), (.name "ctx")] []))] => true
  | _ => false
theorem isTmpl94_sound (b : List PyStmt) (h : isTmpl94 b = true) : b = tmpl94 := by
  unfold isTmpl94 at h; split at h <;> first | rfl | simp at h

/-- `_` -/
def tmpl95 : List PyStmt := [(.expr (.call (.name "pop") [(.name "stack"), (.cint (1)), (.name "ctx")] []))]
def isTmpl95 : List PyStmt → Bool
  | [(.expr (.call (.name "pop") [(.name "stack"), (.cint (1)), (.name "ctx")] []))] => true
  | _ => false
theorem isTmpl95_sound (b : List PyStmt) (h : isTmpl95 b = true) : b = tmpl95 := by
  unfold isTmpl95 at h; split at h <;> first | rfl | simp at h

/-- `d` -/
def tmpl100 : List PyStmt := [(.assign [(.name "lhs")] (.call (.name "pop") [(.name "stack"), (.cint (1)), (.name "ctx")] [])), (.expr (.call (.attr (.name "stack") "append") [(.call (.name "multiply") [(.name "lhs"), (.cint (2)), (.name "ctx")] [])] []))]
def isTmpl100 : List PyStmt → Bool
  | [(.assign [(.name "lhs")] (.call (.name "pop") [(.name "stack"), (.cint (1)), (.name "ctx")] [])), (.expr (.call (.attr (.name "stack") "append") [(.call (.name "multiply") [(.name "lhs"), (.cint (2)), (.name "ctx")] [])] []))] => true
  | _ => false
theorem isTmpl100_sound (b : List PyStmt) (h : isTmpl100 b = true) : b = tmpl100 := by
  unfold isTmpl100 at h; split at h <;> first | rfl | simp at h

/-- `n` -/
def tmpl110 : List PyStmt := [(.assign [(.name "_")] (.call (.name "pop") [(.name "stack"), (.cint (0)), (.name "ctx")] [])), (.expr (.call (.attr (.name "stack") "append") [(.subscript (.attr (.name "ctx") "context_values") (.unary "USub" (.cint (1))))] []))]
def isTmpl110 : List PyStmt → Bool
  | [(.assign [(.name "_")] (.call (.name "pop") [(.name "stack"), (.cint (0)), (.name "ctx")] [])), (.expr (.call (.attr (.name "stack") "append") [(.subscript (.attr (.name "ctx") "context_values") (.unary "USub" (.cint (1))))] []))] => true
  | _ => false
theorem isTmpl110_sound (b : List PyStmt) (h : isTmpl110 b = true) : b = tmpl110 := by
  unfold isTmpl110 at h; split at h <;> first | rfl | simp at h

/-- `u` -/
def tmpl117 : List PyStmt := [(.assign [(.name "_")] (.call (.name "pop") [(.name "stack"), (.cint (0)), (.name "ctx")] [])), (.expr (.call (.attr (.name "stack") "append") [(.unary "USub" (.cint (1)))] []))]
def isTmpl117 : List PyStmt → Bool
  | [(.assign [(.name "_")] (.call (.name "pop") [(.name "stack"), (.cint (0)), (.name "ctx")] [])), (.expr (.call (.attr (.name "stack") "append") [(.unary "USub" (.cint (1)))] []))] => true
  | _ => false
theorem isTmpl117_sound (b : List PyStmt) (h : isTmpl117 b = true) : b = tmpl117 := by
  unfold isTmpl117 at h; split at h <;> first | rfl | simp at h

/-- `w` -/
def tmpl119 : List PyStmt := [(.assign [(.name "lhs")] (.call (.name "pop") [(.name "stack"), (.cint (1)), (.name "ctx")] [])), (.expr (.call (.attr (.name "stack") "append") [(.list [(.name "lhs")])] []))]
def isTmpl119 : List PyStmt → Bool
  | [(.assign [(.name "lhs")] (.call (.name "pop") [(.name "stack"), (.cint (1)), (.name "ctx")] [])), (.expr (.call (.attr (.name "stack") "append") [(.list [(.name "lhs")])] []))] => true
  | _ => false
theorem isTmpl119_sound (b : List PyStmt) (h : isTmpl119 b = true) : b = tmpl119 := by
  unfold isTmpl119 at h; split at h <;> first | rfl | simp at h

/-- `₀` -/
def tmpl8320 : List PyStmt := [(.assign [(.name "_")] (.call (.name "pop") [(.name "stack"), (.cint (0)), (.name "ctx")] [])), (.expr (.call (.attr (.name "stack") "append") [(.cint (10))] []))]
def isTmpl8320 : List PyStmt → Bool
  | [(.assign [(.name "_")] (.call (.name "pop") [(.name "stack"), (.cint (0)), (.name "ctx")] [])), (.expr (.call (.attr (.name "stack") "append") [(.cint (10))] []))] => true
  | _ => false
theorem isTmpl8320_sound (b : List PyStmt) (h : isTmpl8320 b = true) : b = tmpl8320 := by
  unfold isTmpl8320 at h; split at h <;> first | rfl | simp at h

/-- `₁` -/
def tmpl8321 : List PyStmt := [(.assign [(.name "_")] (.call (.name "pop") [(.name "stack"), (.cint (0)), (.name "ctx")] [])), (.expr (.call (.attr (.name "stack") "append") [(.cint (100))] []))]
def isTmpl8321 : List PyStmt → Bool
  | [(.assign [(.name "_")] (.call (.name "pop") [(.name "stack"), (.cint (0)), (.name "ctx")] [])), (.expr (.call (.attr (.name "stack") "append") [(.cint (100))] []))] => true
  | _ => false
theorem isTmpl8321_sound (b : List PyStmt) (h : isTmpl8321 b = true) : b = tmpl8321 := by
  unfold isTmpl8321 at h; split at h <;> first | rfl | simp at h

/-- `₴` -/
def tmpl8372 : List PyStmt := [(.assign [(.name "top")] (.call (.name "pop") [(.name "stack"), (.cint (1)), (.name "ctx")] [])), (.expr (.call (.name "vy_print") [(.name "top")] [("end", (.cstr "")), ("ctx", (.name "ctx"))]))]
def isTmpl8372 : List PyStmt → Bool
  | [(.assign [(.name "top")] (.call (.name "pop") [(.name "stack"), (.cint (1)), (.name "ctx")] [])), (.expr (.call (.name "vy_print") [(.name "top")] [("end", (.cstr "")), ("ctx", (.name "ctx"))]))] => true
  | _ => false
theorem isTmpl8372_sound (b : List PyStmt) (h : isTmpl8372 b = true) : b = tmpl8372 := by
  unfold isTmpl8372 at h; split at h <;> first | rfl | simp at h

/-- `…` -/
def tmpl8230 : List PyStmt := [(.assign [(.name "top")] (.call (.name "pop") [(.name "stack"), (.cint (1)), (.name "ctx")] [])), (.expr (.call (.name "vy_print") [(.name "top")] [("end", (.cstr "\n")), ("ctx", (.name "ctx"))])), (.expr (.call (.attr (.name "stack") "append") [(.name "top")] []))]
def isTmpl8230 : List PyStmt → Bool
  | [(.assign [(.name "top")] (.call (.name "pop") [(.name "stack"), (.cint (1)), (.name "ctx")] [])), (.expr (.call (.name "vy_print") [(.name "top")] [("end", (.cstr "\n")), ("ctx", (.name "ctx"))])), (.expr (.call (.attr (.name "stack") "append") [(.name "top")] []))] => true
  | _ => false
theorem isTmpl8230_sound (b : List PyStmt) (h : isTmpl8230 b = true) : b = tmpl8230 := by
  unfold isTmpl8230 at h; split at h <;> first | rfl | simp at h

/-- `£` -/
def tmpl163 : List PyStmt := [(.assign [(.attr (.name "ctx") "register")] (.call (.name "pop") [(.name "stack"), (.cint (1)), (.name "ctx")] []))]
def isTmpl163 : List PyStmt → Bool
  | [(.assign [(.attr (.name "ctx") "register")] (.call (.name "pop") [(.name "stack"), (.cint (1)), (.name "ctx")] []))] => true
  | _ => false
theorem isTmpl163_sound (b : List PyStmt) (h : isTmpl163 b = true) : b = tmpl163 := by
  unfold isTmpl163 at h; split at h <;> first | rfl | simp at h

/-- `¥` -/
def tmpl165 : List PyStmt := [(.assign [(.name "_")] (.call (.name "pop") [(.name "stack"), (.cint (0)), (.name "ctx")] [])), (.expr (.call (.attr (.name "stack") "append") [(.attr (.name "ctx") "register")] []))]
def isTmpl165 : List PyStmt → Bool
  | [(.assign [(.name "_")] (.call (.name "pop") [(.name "stack"), (.cint (0)), (.name "ctx")] [])), (.expr (.call (.attr (.name "stack") "append") [(.attr (.name "ctx") "register")] []))] => true
  | _ => false
theorem isTmpl165_sound (b : List PyStmt) (h : isTmpl165 b = true) : b = tmpl165 := by
  unfold isTmpl165 at h; split at h <;> first | rfl | simp at h

/-- `†` (call) -/
def tmpl8224 : List PyStmt := [(.assign [(.name "top")] (.call (.name "function_call") [(.name "stack"), (.name "ctx")] [])), (.ifS (.compare (.name "top") [(.isNot, .cnone)]) [(.expr (.call (.attr (.name "stack") "append") [(.name "top")] []))] [])]
def isTmpl8224 : List PyStmt → Bool
  | [(.assign [(.name "top")] (.call (.name "function_call") [(.name "stack"), (.name "ctx")] [])), (.ifS (.compare (.name "top") [(.isNot, .cnone)]) [(.expr (.call (.attr (.name "stack") "append") [(.name "top")] []))] [])] => true
  | _ => false
theorem isTmpl8224_sound (b : List PyStmt) (h : isTmpl8224 b = true) : b = tmpl8224 := by
  unfold isTmpl8224 at h; split at h <;> first | rfl | simp at h

def coreKeys : List Nat := [172, 33, 34, 36, 44, 58, 63, 68, 87, 94, 95, 100, 110, 117, 119, 8320, 8321, 8372, 8230, 163, 165]

def isCoreTmpl (c : Nat) (b : List PyStmt) : Bool :=
  if c = 172 then isTmpl172 b
  else if c = 33 then isTmpl33 b
  else if c = 34 then isTmpl34 b
  else if c = 36 then isTmpl36 b
  else if c = 44 then isTmpl44 b
  else if c = 58 then isTmpl58 b
  else if c = 63 then isTmpl63 b
  else if c = 68 then isTmpl68 b
  else if c = 87 then isTmpl87 b
  else if c = 94 then isTmpl94 b
  else if c = 95 then isTmpl95 b
  else if c = 100 then isTmpl100 b
  else if c = 110 then isTmpl110 b
  else if c = 117 then isTmpl117 b
  else if c = 119 then isTmpl119 b
  else if c = 8320 then isTmpl8320 b
  else if c = 8321 then isTmpl8321 b
  else if c = 8372 then isTmpl8372 b
  else if c = 8230 then isTmpl8230 b
  else if c = 163 then isTmpl163 b
  else if c = 165 then isTmpl165 b
  else false

end Vy.Sem
