import VyxalModel.Lemmas.GbErase
open Vy

mutual
def eraseS : Structure → Structure
  | .generic t => .generic (erase t)
  | .brk p => .brk p
  | .recurse p => .recurse p
  | .ifS bs => .ifS (eraseLL bs)
  | .forS ns b => .forS ns (eraseL b)
  | .whileS c b => .whileS (eraseO c) (eraseL b)
  | .fnCall n => .fnCall n
  | .fnDef n ps b => .fnDef n ps (eraseL b)
  | .lam a b => .lam a (eraseL b)
  | .lamOp k b => .lamOp k (eraseL b)
  | .listS bs => .listS (eraseLL bs)
  | .mon m a => .mon m (eraseS a)
  | .dy m a b => .dy m (eraseS a) (eraseS b)
  | .tri m a b c => .tri m (eraseS a) (eraseS b) (eraseS c)
def eraseL : List Structure → List Structure
  | [] => []
  | s :: r => eraseS s :: eraseL r
def eraseLL : List (List Structure) → List (List Structure)
  | [] => []
  | l :: r => eraseL l :: eraseLL r
def eraseO : Option (List Structure) → Option (List Structure)
  | none => none
  | some l => some (eraseL l)
end

def emap {α β} (f : α → β) : Except Err α → Except Err β
  | .ok a => .ok (f a)
  | .error e => .error e

def payloadFree (b : List Token) : Bool := b.all (fun t => !payloadKind t.kind)

theorem erase_of_not_payload {t : Token} (h : payloadKind t.kind = false) : erase t = t := by
  simp [erase, h]

theorem map_erase_payloadFree {b : List Token} (h : payloadFree b = true) : b.map erase = b := by
  induction b with
  | nil => rfl
  | cons t ts ih =>
    simp only [payloadFree, List.all_cons, Bool.and_eq_true, Bool.not_eq_true'] at h
    simp only [List.map_cons, erase_of_not_payload h.1]
    rw [ih (by simpa [payloadFree] using h.2)]

/-- header check for one structure, given the recursive check `p` for body branches -/
def hdrOKB (p : List Token → Bool) (cls : Parent) (branches : List (List Token)) : Bool :=
  let last := branches.getLast?.getD []
  let head := branches.head?.getD []
  match cls with
  | .forS => (branches.dropLast).all payloadFree && p last
  | .whileS => (if branches.length = 1 then true else p head) && p last
  | .fnCall => payloadFree head && (if branches.length > 1 then p last else true)
  | .lam => (if branches.length = 1 then true else payloadFree head) && p last
  | .lmap | .lfilter | .lsort => p head
  | _ => branches.all p

def hdrOK : Nat → List Token → Bool
  | 0, _ => true
  | _ + 1, [] => true
  | n + 1, t :: ts =>
    match t.isGen1 with
    | none => hdrOK n ts
    | some ch =>
      if ch = cX then hdrOK n ts
      else if ch = cx then hdrOK n ts
      else match opener? ch with
      | some (cls, cl) => hdrOKB (hdrOK n) cls (gb ts [cl] [] []).1 && hdrOK n (gb ts [cl] [] []).2
      | none => hdrOK n ts

theorem mapE_erase (p : List Token → Parent → Except Err (List Structure)) (c : Parent)
    (bs : List (List Token))
    (h : ∀ b ∈ bs, p (b.map erase) c = emap eraseL (p b c)) :
    mapE (fun b => p b c) (bs.map (·.map erase)) = emap eraseLL (mapE (fun b => p b c) bs) := by
  induction bs with
  | nil => rfl
  | cons b bs ih =>
    simp only [List.map_cons, mapE]
    rw [h b (by simp), ih (fun b' hb' => h b' (by simp [hb']))]
    cases p b c with
    | error e => rfl
    | ok x =>
      cases mapE (fun b => p b c) bs with
      | error e => rfl
      | ok xs => rfl

#print axioms mapE_erase

theorem getLast_map_erase (bs : List (List Token)) :
    (bs.map (·.map erase)).getLast?.getD [] = (bs.getLast?.getD []).map erase := by
  rw [List.getLast?_map]; cases bs.getLast? <;> rfl

theorem head_map_erase (bs : List (List Token)) :
    (bs.map (·.map erase)).head?.getD [] = (bs.head?.getD []).map erase := by
  cases bs <;> rfl

theorem dropLast_names (bs : List (List Token)) (h : bs.dropLast.all payloadFree = true) :
    ((bs.map (·.map erase)).dropLast).map variableName = bs.dropLast.map variableName := by
  rw [← List.map_dropLast, List.map_map]
  apply List.map_congr_left
  intro b hb
  simp only [Function.comp]
  rw [map_erase_payloadFree (List.all_eq_true.mp h b hb)]

theorem buildS_erase (p : List Token → Parent → Except Err (List Structure)) (q : List Token → Bool)
    (par cls : Parent) (bs : List (List Token))
    (ih : ∀ b c, q b = true → p (b.map erase) c = emap eraseL (p b c))
    (hb : hdrOKB q cls bs = true) :
    buildS p par cls (bs.map (·.map erase)) = emap eraseS (buildS p par cls bs) := by
  have hall : ∀ c, bs.all q = true →
      mapE (fun b => p b c) (bs.map (·.map erase)) = emap eraseLL (mapE (fun b => p b c) bs) :=
    fun c h => mapE_erase p c bs (fun b hb' => ih b c (List.all_eq_true.mp h b hb'))
  cases cls <;>
    simp only [buildS, hdrOKB, getLast_map_erase, head_map_erase, List.length_map, Bool.and_eq_true] at hb ⊢
  case forS =>
    rw [ih _ _ hb.2, dropLast_names bs hb.1]
    cases p (bs.getLast?.getD []) Parent.forS <;> rfl
  case whileS =>
    rw [ih _ _ hb.2]
    by_cases h1 : bs.length = 1
    · simp only [h1, if_true]
      cases p (bs.getLast?.getD []) Parent.whileS <;> rfl
    · simp only [h1, if_false] at hb ⊢
      rw [ih _ _ hb.1]
      cases p (bs.head?.getD []) Parent.whileS with
      | error e => rfl
      | ok c => cases p (bs.getLast?.getD []) Parent.whileS <;> rfl
  case fnCall =>
    rw [map_erase_payloadFree hb.1]
    by_cases h1 : bs.length > 1
    · simp only [h1, if_true] at hb ⊢
      rw [ih _ _ hb.2]
      cases p (bs.getLast?.getD []) Parent.fnCall <;> rfl
    · simp only [h1, if_false]
      split <;> rfl
  case lam =>
    rw [ih _ _ hb.2]
    by_cases h1 : bs.length = 1
    · simp only [h1, if_true]
      cases p (bs.getLast?.getD []) Parent.lam <;> rfl
    · simp only [h1, if_false] at hb ⊢
      rw [map_erase_payloadFree hb.1]
      cases lambdaArity (bs.head?.getD []) with
      | error e => rfl
      | ok a => cases p (bs.getLast?.getD []) Parent.lam <;> rfl
  case lmap => rw [ih _ _ hb]; cases p (bs.head?.getD []) Parent.lmap <;> rfl
  case lfilter => rw [ih _ _ hb]; cases p (bs.head?.getD []) Parent.lfilter <;> rfl
  case lsort => rw [ih _ _ hb]; cases p (bs.head?.getD []) Parent.lsort <;> rfl
  all_goals (rw [hall _ hb]; cases mapE _ bs <;> rfl)

#print axioms buildS_erase

theorem gb_erase0 (ts : List Token) (cl : Nat) :
    gb (ts.map erase) [cl] [] [] = ((gb ts [cl] [] []).1.map (·.map erase), (gb ts [cl] [] []).2.map erase) := by
  have := gb_erase ts [cl] [] []
  simpa using this

/-- C03, parser half, on the model: parsing commutes with erasing literal payloads
    (for token lists whose structure headers contain no literal tokens). -/
theorem parse_erase : ∀ (n : Nat) (ts : List Token) (par : Parent),
    hdrOK n ts = true → parse n (ts.map erase) par = emap eraseL (parse n ts par) := by
  intro n
  induction n with
  | zero => intro ts par _; simp [parse, emap]
  | succ n ih =>
    intro ts par hok
    cases ts with
    | nil => simp [parse, emap, eraseL]
    | cons t ts' =>
      simp only [List.map_cons]
      have hgen : (erase t).isGen1 = t.isGen1 := erase_isGen1 t
      cases hg : t.isGen1 with
      | none =>
        have hok' : hdrOK n ts' = true := by simpa [hdrOK, hg] using hok
        simp only [parse, hgen, hg, ih ts' par hok']
        cases parse n ts' par <;> simp [emap, eraseL, eraseS, bind, Except.bind, pure, Except.pure]
      | some ch =>
        have het : erase t = t := by
          apply erase_of_not_payload
          unfold Token.isGen1 at hg
          split at hg
          · rename_i hk; simp [hk, payloadKind]
          · simp at hg
        by_cases hX : ch = cX
        · have hok' : hdrOK n ts' = true := by simpa [hdrOK, hg, hX] using hok
          simp only [parse, hgen, hg, hX, if_true, ih ts' par hok']
          cases parse n ts' par <;> simp [emap, eraseL, eraseS, bind, Except.bind, pure, Except.pure]
        · by_cases hx : ch = cx
          · have hok' : hdrOK n ts' = true := by simpa [hdrOK, hg, hX, hx] using hok
            subst hx
            simp only [parse, hgen, hg, hX, if_true, if_false, ih ts' par hok']
            cases parse n ts' par <;> simp [emap, eraseL, eraseS, bind, Except.bind, pure, Except.pure]
          · cases ho : opener? ch with
            | some p =>
              obtain ⟨cls, cl⟩ := p
              have hok2 : hdrOKB (hdrOK n) cls (gb ts' [cl] [] []).1 = true ∧ hdrOK n (gb ts' [cl] [] []).2 = true := by
                simpa [hdrOK, hg, hX, hx, ho] using hok
              simp only [parse, hgen, hg, hX, hx, ho, if_false, gb_erase0]
              rw [buildS_erase (parse n) (hdrOK n) par cls _ (fun b c hb => ih b c hb) hok2.1,
                  ih _ par hok2.2]
              cases buildS (parse n) par cls (gb ts' [cl] [] []).1 with
              | error e => rfl
              | ok s => cases parse n (gb ts' [cl] [] []).2 par <;> rfl
            | none =>
              have hok' : hdrOK n ts' = true := by simpa [hdrOK, hg, hX, hx, ho] using hok
              have hrec : ∀ p, parse n (ts'.map erase) p = emap eraseL (parse n ts' p) := fun p => ih ts' p hok'
              have hfin : ∀ (x : Except Err (List Structure)),
                  (do let r ← emap eraseL x; (pure (Structure.generic (erase t) :: r) : Except Err _)) =
                    emap eraseL (do let r ← x; pure (Structure.generic t :: r)) := by
                intro x; cases x <;> simp [emap, eraseL, eraseS, het, bind, Except.bind, pure, Except.pure]
              cases ts' with
              | nil =>
                simp only [List.map_nil, het]
                have hpn : parse n [] par = .ok [] ∨ parse n [] par = .error .fuel := by
                  cases n <;> simp [parse]
                have hgt : eraseS (Structure.generic t) = Structure.generic t := by simp [eraseS, het]
                simp only [parse, hg, hX, hx, ho, if_false]
                repeat' split
                all_goals (rcases hpn with h | h <;>
                  simp [h, emap, eraseL, hgt, bind, Except.bind, pure, Except.pure])
              | cons u us =>
                simp only [List.map_cons] at hrec ⊢
                simp only [parse, hgen, hg, hX, hx, ho, if_false]
                by_cases h1 : monadicMods.contains ch = true
                · simp only [h1, if_true, hrec]
                  cases parse n (u :: us) Parent.mon with
                  | error e => rfl
                  | ok rem =>
                    cases rem with
                    | nil => rfl
                    | cons a r => by_cases h8 : ch = 8317 <;> simp [emap, eraseL, eraseS, h8, bind, Except.bind, pure, Except.pure]
                · by_cases h2 : dyadicMods.contains ch = true
                  · simp only [h1, h2, if_true, if_false, hrec]
                    cases parse n (u :: us) Parent.dy with
                    | error e => rfl
                    | ok rem =>
                      cases rem with
                      | nil => rfl
                      | cons a r =>
                        cases r with
                        | nil => rfl
                        | cons b r' => by_cases h8 : ch = 8225 <;> simp [emap, eraseL, eraseS, h8, bind, Except.bind, pure, Except.pure]
                  · by_cases h3 : triadicMods.contains ch = true
                    · simp only [h1, h2, h3, if_true, if_false, hrec]
                      cases parse n (u :: us) Parent.tri with
                      | error e => rfl
                      | ok rem =>
                        cases rem with
                        | nil => rfl
                        | cons a r =>
                          cases r with
                          | nil => rfl
                          | cons b r' =>
                            cases r' with
                            | nil => rfl
                            | cons c r'' => simp [emap, eraseL, eraseS, bind, Except.bind, pure, Except.pure]
                    · by_cases h4 : (isCloserCh ch || ch = 32 || ch = cBar) = true
                      · simp only [h1, h2, h3, h4, if_true, if_false, hrec, Bool.false_eq_true, reduceIte]
                      · simp only [h1, h2, h3, h4, if_false, hrec, Bool.false_eq_true, reduceIte]
                        exact hfin _

#print axioms parse_erase

/-- the property-shaped corollary: two token lists that differ only in literal payloads parse to the same shape -/
theorem parse_shape_congr (n : Nat) (ts ts' : List Token) (par : Parent)
    (h : ts.map erase = ts'.map erase) (hk : hdrOK n ts = true) (hk' : hdrOK n ts' = true) :
    emap eraseL (parse n ts par) = emap eraseL (parse n ts' par) := by
  rw [← parse_erase n ts par hk, ← parse_erase n ts' par hk', h]

-- non-vacuity: `[ \| 1 ]` and `[ \a 1 ]` have equal erasures and pass the header check
example : hdrOK 10 [⟨.general, [91]⟩, ⟨.character, [124]⟩, ⟨.number, [49]⟩, ⟨.general, [93]⟩] = true := by decide
example : ([⟨.general, [91]⟩, ⟨.character, [124]⟩, ⟨.number, [49]⟩, ⟨.general, [93]⟩] : List Token).map erase
        = ([⟨.general, [91]⟩, ⟨.character, [97]⟩, ⟨.number, [49]⟩, ⟨.general, [93]⟩] : List Token).map erase := by decide
#print axioms parse_shape_congr
