import VyxalModel.Model.Balance
/-!
# The delta typing is translation invariant, and a check that passes without an enclosing loop / function passes inside any

`shift`: adding the same `δ` to the current delta and to the loop / function deltas it is compared with shifts the
answer by `δ`.  `weaken`: a skeleton accepted with *no* enclosing loop (`lb = none`: it has no `break` / `continue` of its
own) and *no* enclosing function (`fb = none`: no `return` of its own) is accepted, with the same answer, under any.
Together: a template that is balanced at top level (`balancedTop`) is neutral wherever it is spliced in (C12, tree level).
-/
namespace Bal

def shiftO (δ : D4) : Option D4 → Option D4
  | none => none
  | some x => some (x.add δ)

def shiftR (δ : D4) : Option (Option D4) → Option (Option D4)
  | none => none
  | some r => some (shiftO δ r)

theorem D4.add_right_comm (a b c : D4) : (a.add b).add c = (a.add c).add b := by
  cases a; cases b; cases c; simp only [D4.add, D4.mk.injEq]; omega

theorem D4.add_inj (a b δ : D4) : (a.add δ = b.add δ) ↔ a = b := by
  cases a; cases b; cases δ; simp only [D4.add, D4.mk.injEq]; omega

theorem D4.zero_add (δ : D4) : D4.zero.add δ = δ := by
  cases δ; simp [D4.add, D4.zero]

theorem shiftO_eq_some (δ : D4) (o : Option D4) (cur : D4) : (shiftO δ o = some (cur.add δ)) ↔ o = some cur := by
  cases o with
  | none => simp [shiftO]
  | some x => simp [shiftO, D4.add_inj]

theorem joinIf_shift (δ : D4) (a b : Option D4) : joinIf (shiftO δ a) (shiftO δ b) = shiftR δ (joinIf a b) := by
  cases a <;> cases b <;> simp [joinIf, shiftO, shiftR]
  rename_i x y
  by_cases h : x = y
  · simp [h, shiftO]
  · have : ¬ x.add δ = y.add δ := fun he => h ((D4.add_inj x y δ).mp he)
    simp [h, this]

mutual
theorem chkS_shift (δ : D4) : ∀ (s : Sk) (lb fb : Option D4) (cur : D4),
    chkS (shiftO δ lb) (shiftO δ fb) (cur.add δ) s = shiftR δ (chkS lb fb cur s)
  | .ev d, lb, fb, cur => by simp [chkS, shiftR, shiftO, D4.add_right_comm]
  | .other, lb, fb, cur => by simp [chkS, shiftR, shiftO]
  | .unknown, lb, fb, cur => by simp [chkS, shiftR]
  | .ifS t e, lb, fb, cur => by
      simp only [chkS, chkL_shift δ t lb fb cur, chkL_shift δ e lb fb cur]
      cases ht : chkL lb fb cur t with
      | none => simp [shiftR]
      | some a =>
        cases he : chkL lb fb cur e with
        | none => simp [shiftR]
        | some b => simp only [shiftR]; exact joinIf_shift δ a b
  | .loop b, lb, fb, cur => by
      have h : chkL (some (cur.add δ)) (shiftO δ fb) (cur.add δ) b = shiftR δ (chkL (some cur) fb cur b) :=
        chkL_shift δ b (some cur) fb cur
      simp only [chkS, h]
      cases hb : chkL (some cur) fb cur b with
      | none => simp [shiftR]
      | some r =>
        cases r with
        | none => simp [shiftR, shiftO]
        | some x =>
          simp only [shiftR, shiftO]
          by_cases hx : x = cur
          · simp [hx]
          · have : ¬ x.add δ = cur.add δ := fun he => hx ((D4.add_inj x cur δ).mp he)
            simp [hx, this]
  | .brk, lb, fb, cur => by
      simp only [chkS]
      by_cases h : lb = some cur
      · simp [h, shiftO, shiftR]
      · have : ¬ shiftO δ lb = some (cur.add δ) := fun he => h ((shiftO_eq_some δ lb cur).mp he)
        simp [h, this, shiftR]
  | .cont, lb, fb, cur => by
      simp only [chkS]
      by_cases h : lb = some cur
      · simp [h, shiftO, shiftR]
      · have : ¬ shiftO δ lb = some (cur.add δ) := fun he => h ((shiftO_eq_some δ lb cur).mp he)
        simp [h, this, shiftR]
  | .ret, lb, fb, cur => by
      simp only [chkS]
      by_cases h : fb = some cur
      · simp [h, shiftO, shiftR]
      · have : ¬ shiftO δ fb = some (cur.add δ) := fun he => h ((shiftO_eq_some δ fb cur).mp he)
        simp [h, this, shiftR]
  | .defn b, lb, fb, cur => by
      simp only [chkS]
      cases hb : chkL none (some D4.zero) D4.zero b with
      | none => simp [shiftR]
      | some r =>
        cases r with
        | none => simp [shiftR, shiftO]
        | some x =>
          by_cases hx : x = D4.zero <;> simp [hx, shiftR, shiftO]
theorem chkL_shift (δ : D4) : ∀ (l : List Sk) (lb fb : Option D4) (cur : D4),
    chkL (shiftO δ lb) (shiftO δ fb) (cur.add δ) l = shiftR δ (chkL lb fb cur l)
  | [], lb, fb, cur => by simp [chkL, shiftR, shiftO]
  | s :: rest, lb, fb, cur => by
      simp only [chkL, chkS_shift δ s lb fb cur]
      cases hs : chkS lb fb cur s with
      | none => simp [shiftR]
      | some r =>
        cases r with
        | none => simp [shiftR, shiftO]
        | some d => simp only [shiftR, shiftO]; exact chkL_shift δ rest lb fb d
end

/-- `a ⊑ b`: `b` answers wherever `a` does -/
def leO (a b : Option D4) : Prop := ∀ x, a = some x → b = some x

mutual
theorem chkS_weaken : ∀ (s : Sk) (lb fb lb' fb' : Option D4) (cur : D4) (r : Option D4), leO lb lb' → leO fb fb' →
    chkS lb fb cur s = some r → chkS lb' fb' cur s = some r
  | .ev d, _, _, _, _, _, _, _, _, h => by simpa [chkS] using h
  | .other, _, _, _, _, _, _, _, _, h => by simpa [chkS] using h
  | .unknown, _, _, _, _, _, _, _, _, h => by simp [chkS] at h
  | .ifS t e, lb, fb, lb', fb', cur, r, hl, hf, h => by
      simp only [chkS] at h ⊢
      cases ht : chkL lb fb cur t with
      | none => simp [ht] at h
      | some a =>
        cases he : chkL lb fb cur e with
        | none => simp [ht, he] at h
        | some b =>
          rw [chkL_weaken t lb fb lb' fb' cur a hl hf ht, chkL_weaken e lb fb lb' fb' cur b hl hf he]
          simpa [ht, he] using h
  | .loop b, lb, fb, lb', fb', cur, r, _, hf, h => by
      simp only [chkS] at h ⊢
      cases hb : chkL (some cur) fb cur b with
      | none => simp [hb] at h
      | some x =>
        rw [chkL_weaken b (some cur) fb (some cur) fb' cur x (fun _ hx => hx) hf hb]
        simpa [hb] using h
  | .brk, lb, fb, lb', fb', cur, r, hl, _, h => by
      simp only [chkS] at h ⊢
      by_cases hc : lb = some cur
      · simp [hc] at h; simp [hl cur hc, h]
      · simp [hc] at h
  | .cont, lb, fb, lb', fb', cur, r, hl, _, h => by
      simp only [chkS] at h ⊢
      by_cases hc : lb = some cur
      · simp [hc] at h; simp [hl cur hc, h]
      · simp [hc] at h
  | .ret, lb, fb, lb', fb', cur, r, _, hf, h => by
      simp only [chkS] at h ⊢
      by_cases hc : fb = some cur
      · simp [hc] at h; simp [hf cur hc, h]
      · simp [hc] at h
  | .defn b, _, _, _, _, _, _, _, _, h => by simpa [chkS] using h
theorem chkL_weaken : ∀ (l : List Sk) (lb fb lb' fb' : Option D4) (cur : D4) (r : Option D4), leO lb lb' → leO fb fb' →
    chkL lb fb cur l = some r → chkL lb' fb' cur l = some r
  | [], _, _, _, _, _, _, _, _, h => by simpa [chkL] using h
  | s :: rest, lb, fb, lb', fb', cur, r, hl, hf, h => by
      simp only [chkL] at h ⊢
      cases hs : chkS lb fb cur s with
      | none => simp [hs] at h
      | some x =>
        rw [chkS_weaken s lb fb lb' fb' cur x hl hf hs]
        cases x with
        | none => simpa [hs] using h
        | some d =>
          simp only [hs] at h
          exact chkL_weaken rest lb fb lb' fb' d r hl hf h
end

/-- **a template balanced at top level is neutral wherever it stands** -/
theorem neutral_everywhere (sk : List Sk) (h : chkL none none D4.zero sk = some (some D4.zero)) (lb fb : Option D4) (cur : D4) :
    chkL lb fb cur sk = some (some cur) := by
  have h1 := chkL_shift cur sk none none D4.zero
  rw [h] at h1
  simp only [shiftO, shiftR, D4.zero_add] at h1
  exact chkL_weaken sk none none lb fb cur (some cur) (fun _ hx => by simp at hx) (fun _ hx => by simp at hx) h1

end Bal
