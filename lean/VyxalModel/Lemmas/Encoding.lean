import VyxalModel.Model.Encoding
/-! Lemmas for the code-page conversions. -/
namespace Vy

theorem contains_false_not_mem {l : List Nat} {x : Nat} (h : l.contains x = false) : x ∉ l := by
  simpa using h

theorem nodupB_sound : ∀ (l : List Nat), nodupB l = true → l.Nodup
  | [], _ => List.nodup_nil
  | x :: xs, h => by
    simp only [nodupB, Bool.and_eq_true, Bool.not_eq_true'] at h
    exact List.nodup_cons.mpr ⟨contains_false_not_mem h.1, nodupB_sound xs h.2⟩

theorem nodupBL_sound : ∀ (l : List (List Nat)), nodupBL l = true → l.Nodup
  | [], _ => List.nodup_nil
  | x :: xs, h => by
    simp only [nodupBL, Bool.and_eq_true, Bool.not_eq_true'] at h
    exact List.nodup_cons.mpr ⟨by simpa using h.1, nodupBL_sound xs h.2⟩

/-- bytes → text → bytes is the identity, for every byte string over a duplicate-free code page -/
theorem bytes_roundtrip_gen (cp : List Nat) (hn : cp.Nodup) :
    ∀ (bs : List Nat), (∀ b ∈ bs, b < cp.length) →
      (vyxalToUtf8 cp bs).bind (utf8ToVyxal cp) = some bs
  | [], _ => rfl
  | b :: bs, h => by
    have hb : b < cp.length := h b (by simp)
    have ih := bytes_roundtrip_gen cp hn bs (fun x hx => h x (by simp [hx]))
    have hget : cp[b]? = some cp[b] := List.getElem?_eq_getElem hb
    cases hr : vyxalToUtf8 cp bs with
    | none => simp [hr] at ih
    | some r =>
      simp only [hr, Option.bind_some] at ih
      have hidx : cp.idxOf cp[b] = b := hn.idxOf_getElem b hb
      simp [vyxalToUtf8, hget, hr, utf8ToVyxal, hidx, hb, ih]

/-- text → bytes → text is the identity, for every string of code-page characters -/
theorem text_roundtrip_gen (cp : List Nat) :
    ∀ (s : List Nat), (∀ c ∈ s, c ∈ cp) →
      (utf8ToVyxal cp s).bind (vyxalToUtf8 cp) = some s
  | [], _ => rfl
  | c :: cs, h => by
    have hc : c ∈ cp := h c (by simp)
    have ih := text_roundtrip_gen cp cs (fun x hx => h x (by simp [hx]))
    have hlt : cp.idxOf c < cp.length := List.idxOf_lt_length_iff.mpr hc
    cases hr : utf8ToVyxal cp cs with
    | none => simp [hr] at ih
    | some r =>
      simp only [hr, Option.bind_some] at ih
      have hget : cp[cp.idxOf c]? = some c := by
        rw [List.getElem?_eq_getElem hlt]; simp
      simp [utf8ToVyxal, hlt, hr, vyxalToUtf8, hget, ih]

/-- the byte sequence has the same length as the text: one byte per character -/
theorem utf8ToVyxal_length (cp : List Nat) : ∀ (s r : List Nat), utf8ToVyxal cp s = some r → r.length = s.length
  | [], r, h => by simp only [utf8ToVyxal, Option.some.injEq] at h; subst h; simp
  | c :: cs, r, h => by
    simp only [utf8ToVyxal] at h
    split at h
    · cases hr : utf8ToVyxal cp cs with
      | none => simp [hr] at h
      | some r' =>
        simp only [hr, Option.some.injEq] at h
        have := utf8ToVyxal_length cp cs r' hr
        simp [← h, this]
    · simp at h

theorem utf8ToVyxal_bytes (cp : List Nat) : ∀ (s r : List Nat), utf8ToVyxal cp s = some r → ∀ b ∈ r, b < cp.length
  | [], r, h => by simp only [utf8ToVyxal, Option.some.injEq] at h; subst h; simp
  | c :: cs, r, h => by
    simp only [utf8ToVyxal] at h
    split at h
    · rename_i hlt
      cases hr : utf8ToVyxal cp cs with
      | none => simp [hr] at h
      | some r' =>
        simp only [hr, Option.some.injEq] at h
        have ih := utf8ToVyxal_bytes cp cs r' hr
        intro b hb
        rw [← h] at hb
        rcases List.mem_cons.mp hb with rfl | hb
        · exact hlt
        · exact ih b hb
    · simp at h

end Vy
