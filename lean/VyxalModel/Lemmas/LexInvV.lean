import VyxalModel.Model.LexerV
import VyxalModel.Lemmas.LexInv
/-! The variable-token invariant for the `V`-flag lexer. -/
open Vy

theorem tokeniseVF_forall (P : Token → Prop) (hstep : ∀ s t r, lexStepV s = some (some t, r) → P t) :
    ∀ (n : Nat) (s : List Nat), ∀ t ∈ tokeniseVF n s, P t := by
  intro n
  induction n with
  | zero => intro s t ht; simp [tokeniseVF] at ht
  | succ n ih =>
    intro s t ht
    simp only [tokeniseVF] at ht
    cases hs : lexStepV s with
    | none => simp [hs] at ht
    | some p =>
      obtain ⟨o, r⟩ := p
      cases o with
      | none => simp only [hs] at ht; exact ih r t ht
      | some tk =>
        simp only [hs, List.mem_cons] at ht
        rcases ht with rfl | ht
        · exact hstep s _ r hs
        · exact ih r t ht

theorem oneLetter_letters (kind : TokKind) (cs : List Nat) (t : Token) (r : List Nat)
    (h : oneLetter kind cs = some (some t, r)) : ∀ c ∈ t.value, isLetter c = true := by
  cases cs with
  | nil => simp [oneLetter] at h; obtain ⟨rfl, _⟩ := h; intro c hc; simp at hc
  | cons d rest =>
    simp only [oneLetter] at h
    split at h
    · rename_i hd
      simp at h; obtain ⟨rfl, _⟩ := h
      intro c hc; simp at hc; subst hc; exact hd
    · simp at h; obtain ⟨rfl, _⟩ := h; intro c hc; simp at hc

theorem lexStepV_variable_letters (s : List Nat) (t : Token) (r : List Nat) (h : lexStepV s = some (some t, r))
    (hk : t.kind = .vget ∨ t.kind = .vset) : ∀ c ∈ t.value, isLetter c = true := by
  cases s with
  | nil => simp [lexStepV] at h
  | cons c cs =>
    simp only [lexStepV] at h
    split at h
    · exact oneLetter_letters _ cs t r h
    · split at h
      · exact oneLetter_letters _ cs t r h
      · exact lexStep_variable_letters (c :: cs) t r h hk
