import VyxalModel.Model.Number
import VyxalModel.Lemmas.Lexer
/-! Lemmas for C05: the number branch of the lexer on digit strings with points, and the value function. -/
open Vy

theorem scanNumber_digits_app (ds rest : List Nat) (hd : ∀ c ∈ ds, isDig c = true) (deg : Bool) (dots : Nat)
    (acc : List Nat) : scanNumber (ds ++ rest) deg dots acc = scanNumber rest deg dots (ds.reverse ++ acc) := by
  induction ds generalizing acc with
  | nil => simp
  | cons c cs ih =>
    have hc : isDig c = true := hd c (by simp)
    simp only [List.cons_append, scanNumber, hc, if_true]
    rw [ih (fun x hx => hd x (by simp [hx]))]
    simp

theorem isDig_not_dot {c : Nat} (h : isDig c = true) : c ≠ cDot ∧ c ≠ cDeg := by
  have hr : 48 ≤ c ∧ c ≤ 57 := by simpa [isDig] using h
  unfold cDot cDeg; omega

/-- digits, a point, digits, then end of input or a second point: the scan stops exactly there -/
theorem scanNumber_point (b rest : List Nat) (hb : ∀ c ∈ b, isDig c = true) (deg : Bool) (acc : List Nat)
    (hrest : rest = [] ∨ ∃ r, rest = cDot :: r) :
    scanNumber (cDot :: b ++ rest) deg 0 acc = (acc.reverse ++ cDot :: b, rest) := by
  have hnd : isDig cDot = false := by decide
  simp only [List.cons_append, scanNumber, hnd, Bool.false_eq_true, if_false, if_true]
  rw [scanNumber_digits_app b rest hb]
  rcases hrest with rfl | ⟨r, rfl⟩
  · simp [scanNumber]
  · simp [scanNumber, hnd]

theorem lexKind_dot : lexKind cDot = .num := by decide

/-- `a.b` (a without a leading zero, or a = "0", or a empty) is one NUMBER token; a second point starts a new number -/
theorem lex_decimal_gen (a b rest : List Nat) (ha : ∀ c ∈ a, isDig c = true) (hb : ∀ c ∈ b, isDig c = true)
    (h0 : a.head? ≠ some 48 ∨ a = [48]) (hrest : rest = [] ∨ ∃ r, rest = cDot :: r) :
    tokenise (a ++ cDot :: b ++ rest) = ⟨.number, a ++ cDot :: b⟩ :: tokenise rest := by
  rw [tokenise_step]
  cases a with
  | nil =>
    simp only [List.nil_append, List.cons_append, lexStep, lexKind_dot]
    have h1 : (cDot == 48) = false := by decide
    have := scanNumber_point b rest hb (decide (cDot = cDeg)) [] hrest
    simp only [List.cons_append] at this
    -- the head is the point itself: dots starts at 1, so the generic lemma does not apply; unfold directly
    have hnd : isDig cDot = false := by decide
    simp only [show ((cDot : Nat) = 48) = False by decide, decide_false, Bool.false_and, Bool.false_eq_true, if_false,
      if_true]
    rw [scanNumber_digits_app b rest hb]
    rcases hrest with rfl | ⟨r, rfl⟩
    · simp [scanNumber]
    · simp [scanNumber, hnd]
  | cons c cs =>
    have hc : isDig c = true := ha c (by simp)
    have hcs : ∀ x ∈ cs, isDig x = true := fun x hx => ha x (by simp [hx])
    have ⟨hcd, hcg⟩ := isDig_not_dot hc
    have htail : (c :: cs) ++ cDot :: b ++ rest = c :: (cs ++ (cDot :: b ++ rest)) := by simp
    rw [htail]
    generalize hX : cs ++ (cDot :: b ++ rest) = X
    simp only [lexStep, lexKind_digit hc]
    have hsp : (decide (c = 48) && !nextIsDotOrDeg X) = false := by
      rcases h0 with h | h
      · have : c ≠ 48 := by simpa using h
        simp [this]
      · have hcs0 : cs = [] := by simpa using (List.cons.inj h).2
        subst hcs0
        subst hX
        simp [nextIsDotOrDeg]
    simp only [hsp, Bool.false_eq_true, if_false, hcd, hcg, decide_false]
    subst hX
    rw [scanNumber_digits_app cs _ hcs]
    have := scanNumber_point b rest hb false (cs.reverse ++ [c]) hrest
    rw [this]
    simp

/-! ### the value function -/

def digitsVal (num : Nat) (ds : List Nat) : Nat := ds.foldl (fun a c => 10 * a + (c - 48)) num

theorem natOfDigits_eq (ds : List Nat) : natOfDigits ds = digitsVal 0 ds := rfl

theorem digitsVal_shift (num : Nat) (ds : List Nat) : digitsVal num ds = num * 10 ^ ds.length + digitsVal 0 ds := by
  induction ds generalizing num with
  | nil => simp [digitsVal]
  | cons c cs ih =>
    simp only [digitsVal, List.foldl_cons, List.length_cons] at ih ⊢
    rw [ih (10 * num + (c - 48)), ih (10 * 0 + (c - 48))]
    simp only [Nat.mul_zero, Nat.zero_add, Nat.pow_succ]
    rw [Nat.add_mul, Nat.add_assoc]
    congr 1
    rw [Nat.mul_comm 10 num, Nat.mul_assoc, Nat.mul_comm 10]

theorem natOfDigits_append (a b : List Nat) : natOfDigits (a ++ b) = natOfDigits a * 10 ^ b.length + natOfDigits b := by
  simp only [natOfDigits_eq, digitsVal, List.foldl_append]
  exact digitsVal_shift _ b

theorem decimalValueAux_digits (ds rest : List Nat) (hd : ∀ c ∈ ds, isDig c = true) (num : Nat) (frac : Option Nat) :
    decimalValueAux (ds ++ rest) num frac = decimalValueAux rest (digitsVal num ds) (frac.map (· + ds.length)) := by
  induction ds generalizing num frac with
  | nil => cases frac <;> simp [digitsVal]
  | cons c cs ih =>
    have hc : isDig c = true := hd c (by simp)
    simp only [List.cons_append, decimalValueAux, hc, if_true]
    rw [ih (fun x hx => hd x (by simp [hx]))]
    cases frac <;> simp [digitsVal, Nat.add_assoc, Nat.add_comm 1]
