import VyxalModel.Model.Lexer
open Vy

theorem scanString_len (delim : Nat) (esc : Bool) (cs acc : List Nat) :
    (scanString delim esc cs acc).2.length ≤ cs.length := by
  fun_induction scanString delim esc cs acc <;> simp_all <;> omega

theorem scanNumber_len (cs : List Nat) (deg : Bool) (dots : Nat) (acc : List Nat) :
    (scanNumber cs deg dots acc).2.length ≤ cs.length := by
  fun_induction scanNumber cs deg dots acc <;> simp_all <;> omega

theorem takeLetters_len (cs acc : List Nat) : (takeLetters cs acc).2.length ≤ cs.length := by
  fun_induction takeLetters cs acc <;> simp_all <;> omega

theorem skipComment_len (cs : List Nat) : (skipComment cs).length ≤ cs.length := by
  fun_induction skipComment cs <;> simp_all <;> omega

/-- every step consumes at least one character -/
theorem lexStep_len {s : List Nat} {o : Option Token} {r : List Nat} (h : lexStep s = some (o, r)) :
    r.length < s.length := by
  cases s with
  | nil => simp [lexStep] at h
  | cons c cs =>
    have h96 := scanString_len 96 true cs []
    have h187 := scanString_len 187 false cs []
    have h171 := scanString_len 171 false cs []
    have hnum := scanNumber_len cs (c = cDeg) (if c = cDot then 1 else 0) [c]
    have hlet := takeLetters_len cs []
    have hcom := skipComment_len cs
    simp only [List.length_cons]
    suffices r.length ≤ cs.length by omega
    unfold lexStep at h
    cases hk : lexKind c <;> simp only [hk] at h
    case esc => cases cs <;> (simp at h; rw [← h.2]; simp)
    case bq => simp at h; rw [← h.2]; exact h96
    case cnum => simp at h; rw [← h.2]; exact h187
    case cstr => simp at h; rw [← h.2]; exact h171
    case num =>
      by_cases hz : (c = 48 && !nextIsDotOrDeg cs) = true
      · rw [if_pos hz] at h; simp at h; rw [← h.2]; simp
      · rw [if_neg hz] at h; simp at h; rw [← h.2]; exact hnum
    case two =>
      cases cs with
      | nil => simp at h; rw [← h.2]; simp
      | cons a r1 =>
        cases r1 with
        | nil => simp at h; rw [← h.2]; simp
        | cons b r2 => simp at h; rw [← h.2]; simp; omega
    case vset => simp at h; rw [← h.2]; exact hlet
    case vget => simp at h; rw [← h.2]; exact hlet
    case comment => simp at h; rw [← h.2]; exact hcom
    case digraph =>
      cases cs with
      | nil => simp at h; rw [← h.2]; simp
      | cons d r' =>
        simp only at h
        split at h <;> (simp at h; rw [← h.2]; simp)
    case cp => cases cs <;> (simp at h; rw [← h.2]; simp)
    case gen => simp at h; rw [← h.2]; simp

/-- more fuel than characters is always enough, and then the amount does not matter -/
theorem tokeniseF_fuel : ∀ (n m : Nat) (s : List Nat), s.length < n → s.length < m →
    tokeniseF n s = tokeniseF m s := by
  intro n
  induction n with
  | zero => intro m s h; omega
  | succ n ih =>
    intro m s hn hm
    cases m with
    | zero => omega
    | succ m =>
      simp only [tokeniseF]
      cases hs : lexStep s with
      | none => rfl
      | some p =>
        obtain ⟨o, r⟩ := p
        have hr := lexStep_len hs
        have := ih m r (by omega) (by omega)
        cases o <;> simp [this]

theorem tokenise_eq (s : List Nat) (n : Nat) (h : s.length < n) : tokeniseF n s = tokenise s :=
  tokeniseF_fuel n (s.length + 1) s h (by omega)

/-- the loop, unrolled once, in terms of `tokenise` itself -/
theorem tokenise_step (s : List Nat) :
    tokenise s = match lexStep s with
      | none => []
      | some (none, r) => tokenise r
      | some (some t, r) => t :: tokenise r := by
  have h1 : tokenise s = tokeniseF (s.length + 1) s := rfl
  rw [h1, tokeniseF]
  cases hs : lexStep s with
  | none => rfl
  | some p =>
    obtain ⟨o, r⟩ := p
    have hr := lexStep_len hs
    have := tokenise_eq r s.length hr
    cases o <;> simp [this]

#print axioms tokenise_step

/-! C05, lexer part: an integer literal is one NUMBER token -/
theorem scanNumber_digits (ds : List Nat) (hd : ∀ c ∈ ds, isDig c = true) (deg : Bool) (dots : Nat) (acc : List Nat) :
    scanNumber ds deg dots acc = (acc.reverse ++ ds, []) := by
  induction ds generalizing acc with
  | nil => simp [scanNumber]
  | cons c cs ih =>
    have hc : isDig c = true := hd c (by simp)
    simp only [scanNumber, hc, if_true]
    rw [ih (fun x hx => hd x (by simp [hx]))]
    simp

theorem lexKind_digit {c : Nat} (h : isDig c = true) : lexKind c = .num := by
  have hr : 48 ≤ c ∧ c ≤ 57 := by simpa [isDig] using h
  have h1 : c ≠ 92 := by omega
  have h2 : c ≠ 96 := by omega
  have h3 : c ≠ 187 := by omega
  have h4 : c ≠ 171 := by omega
  simp [lexKind, h1, h2, h3, h4, isNumCh, h]

theorem tokenise_nil : tokenise [] = [] := by
  rw [tokenise_step]; rfl

/-- every non-empty digit string without a leading zero is exactly one NUMBER token carrying the same digits -/
theorem lex_integer (c : Nat) (cs : List Nat) (hc : isDig c = true) (h0 : c ≠ 48)
    (hd : ∀ d ∈ cs, isDig d = true) : tokenise (c :: cs) = [⟨.number, c :: cs⟩] := by
  have hr : 48 ≤ c ∧ c ≤ 57 := by simpa [isDig] using hc
  rw [tokenise_step]
  have hdeg : c ≠ cDeg := by unfold cDeg; omega
  have hdot : c ≠ cDot := by unfold cDot; omega
  simp only [lexStep, lexKind_digit hc, h0, decide_false, Bool.false_and, Bool.false_eq_true, if_false]
  rw [scanNumber_digits cs hd]
  simp [tokenise_nil]

/-- a lone zero in front of more digits is its own token (the documented special case) -/
theorem lex_leading_zero (d : Nat) (ds : List Nat) (hd : isDig d = true) :
    tokenise (48 :: d :: ds) = ⟨.number, [48]⟩ :: tokenise (d :: ds) := by
  have hr : 48 ≤ d ∧ d ≤ 57 := by simpa [isDig] using hd
  have h1 : d ≠ cDeg := by simp [cDeg]; omega
  have h2 : d ≠ cDot := by simp [cDot]; omega
  rw [tokenise_step]
  have : lexKind 48 = .num := lexKind_digit (by decide)
  simp [lexStep, this, nextIsDotOrDeg, h1, h2]

example : tokenise [49, 50, 51] = [⟨.number, [49, 50, 51]⟩] := lex_integer 49 [50, 51] (by decide) (by decide) (by decide)
#print axioms lex_integer
#print axioms lex_leading_zero
