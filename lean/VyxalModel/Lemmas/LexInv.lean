import VyxalModel.Lemmas.Lexer
/-! Invariants of the lexer's output: what can be inside a NUMBER / VARIABLE token (used by C18). -/
open Vy

/-- a property of every token a single lexer step can produce holds of every token of `tokenise s` -/
theorem tokeniseF_forall (P : Token → Prop) (hstep : ∀ s t r, lexStep s = some (some t, r) → P t) :
    ∀ (n : Nat) (s : List Nat), ∀ t ∈ tokeniseF n s, P t := by
  intro n
  induction n with
  | zero => intro s t ht; simp [tokeniseF] at ht
  | succ n ih =>
    intro s t ht
    simp only [tokeniseF] at ht
    cases hs : lexStep s with
    | none => simp [hs] at ht
    | some p =>
      obtain ⟨o, r⟩ := p
      cases o with
      | none => simp only [hs] at ht; exact ih r t ht
      | some tk =>
        simp only [hs, List.mem_cons] at ht
        rcases ht with rfl | ht
        · exact hstep s _ r hs
        · exact ih r t ht

theorem tokenise_forall (P : Token → Prop) (hstep : ∀ s t r, lexStep s = some (some t, r) → P t) (s : List Nat) :
    ∀ t ∈ tokenise s, P t := tokeniseF_forall P hstep _ s

theorem takeLetters_letters (cs acc : List Nat) :
    ∀ c ∈ (takeLetters cs acc).1, isLetter c = true ∨ c ∈ acc := by
  induction cs generalizing acc with
  | nil => intro c hc; simp [takeLetters] at hc; exact Or.inr hc
  | cons x xs ih =>
    intro c hc
    simp only [takeLetters] at hc
    split at hc
    · rename_i hx
      rcases ih (x :: acc) c hc with h | h
      · exact Or.inl h
      · rcases List.mem_cons.mp h with rfl | h
        · exact Or.inl hx
        · exact Or.inr h
    · simp at hc; exact Or.inr hc

theorem scanNumber_chars (cs : List Nat) (deg : Bool) (dots : Nat) (acc : List Nat) :
    ∀ c ∈ (scanNumber cs deg dots acc).1, isNumCh c = true ∨ c ∈ acc := by
  induction cs generalizing deg dots acc with
  | nil => intro c hc; simp [scanNumber] at hc; exact Or.inr hc
  | cons x xs ih =>
    intro c hc
    simp only [scanNumber] at hc
    have step : ∀ deg' dots', c ∈ (scanNumber xs deg' dots' (x :: acc)).1 → isNumCh x = true → isNumCh c = true ∨ c ∈ acc := by
      intro deg' dots' h hx
      rcases ih deg' dots' (x :: acc) c h with h | h
      · exact Or.inl h
      · rcases List.mem_cons.mp h with rfl | h
        · exact Or.inl hx
        · exact Or.inr h
    split at hc
    · rename_i hd; exact step _ _ hc (by simp [isNumCh, hd])
    · split at hc
      · rename_i hdot
        split at hc
        · exact step _ _ hc (by simp [isNumCh, hdot])
        · simp at hc; exact Or.inr hc
      · split at hc
        · rename_i hdeg
          split at hc
          · simp at hc; exact Or.inr hc
          · exact step _ _ hc (by simp [isNumCh, hdeg])
        · simp at hc; exact Or.inr hc

theorem lexKind_num {c : Nat} (h : lexKind c = .num) : isNumCh c = true := by
  unfold lexKind at h
  repeat' split at h
  all_goals first | assumption | cases h

/-- a NUMBER token consists of digits, points and `°` only -/
theorem lexStep_number_chars (s : List Nat) (t : Token) (r : List Nat) (h : lexStep s = some (some t, r))
    (hk : t.kind = .number) : ∀ c ∈ t.value, isNumCh c = true := by
  cases s with
  | nil => simp [lexStep] at h
  | cons c cs =>
    simp only [lexStep] at h
    cases hl : lexKind c <;> simp only [hl] at h
    case num =>
      have hc := lexKind_num hl
      split at h
      · simp at h; obtain ⟨rfl, _⟩ := h; intro x hx; simp at hx; subst hx; decide
      · simp at h; obtain ⟨rfl, _⟩ := h
        intro x hx
        rcases scanNumber_chars cs _ _ [c] x hx with h1 | h1
        · exact h1
        · simp at h1; subst h1; exact hc
    all_goals
      first
      | (simp at h; done)
      | (simp at h; obtain ⟨rfl, _⟩ := h; simp at hk)
      | (split at h <;> first | (simp at h; try (obtain ⟨rfl, _⟩ := h; simp at hk)) | (split at h <;> simp at h <;> (try (obtain ⟨rfl, _⟩ := h; simp at hk))))

/-- a VARIABLE_GET / VARIABLE_SET token consists of ASCII letters and underscores only -/
theorem lexStep_variable_letters (s : List Nat) (t : Token) (r : List Nat) (h : lexStep s = some (some t, r))
    (hk : t.kind = .vget ∨ t.kind = .vset) : ∀ c ∈ t.value, isLetter c = true := by
  cases s with
  | nil => simp [lexStep] at h
  | cons c cs =>
    simp only [lexStep] at h
    cases hl : lexKind c <;> simp only [hl] at h
    case vset =>
      simp at h; obtain ⟨rfl, _⟩ := h
      intro x hx
      rcases takeLetters_letters cs [] x hx with h1 | h1
      · exact h1
      · simp at h1
    case vget =>
      simp at h; obtain ⟨rfl, _⟩ := h
      intro x hx
      rcases takeLetters_letters cs [] x hx with h1 | h1
      · exact h1
      · simp at h1
    all_goals
      first
      | (simp at h; done)
      | (simp at h; obtain ⟨rfl, _⟩ := h; simp at hk)
      | (split at h <;> first | (simp at h; try (obtain ⟨rfl, _⟩ := h; simp at hk)) | (split at h <;> simp at h <;> (try (obtain ⟨rfl, _⟩ := h; simp at hk))))
