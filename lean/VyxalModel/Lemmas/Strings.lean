import VyxalModel.Model.Strings
import VyxalModel.Lemmas.LexLiteral
/-! Lemmas for C06 / C18 (string path), ported from the design-phase probe. -/
open Vy

/-- C06 (dictionary compression off): quote, lex, escape for Python, decode — the identity, for every string -/
theorem quote_eval_raw (s : Str) : pyStringBody (escapeString (escBB s)) = some s := by
  induction s with
  | nil => simp [escBB, escapeString, pyStringBody]
  | cons c cs ih =>
    by_cases h1 : c = cBS
    · subst h1
      have hq : cBS ≠ cBQ := by decide
      have hd : ¬ (cBS = cDQ ∨ cBS = cNL) := by decide
      simp only [escBB, if_true]
      rw [escapeString.eq_def]; simp only [if_true, hq, if_false]
      rw [pyStringBody.eq_def]; simp only [hd, if_false, if_true, ih, Option.map_some]
    · by_cases h2 : c = cBQ
      · subst h2
        have hd : ¬ (cBQ = cDQ ∨ cBQ = cNL) := by decide
        have hb : cBQ ≠ cBS := by decide
        simp only [escBB, hb, if_false, if_true]
        rw [escapeString.eq_def]; simp only [if_true]
        rw [pyStringBody.eq_def]; simp only [hd, hb, if_false, ih, Option.map_some]
      · by_cases h3 : c = cDQ
        · subst h3
          have hd : ¬ (cBS = cDQ ∨ cBS = cNL) := by decide
          have h5 : cDQ ≠ cBS := by decide
          simp only [escBB, h1, h2, if_false]
          rw [escapeString.eq_def]; simp only [h1, if_false, if_true]
          rw [pyStringBody.eq_def]; simp only [hd, if_false, if_true, h5, ih, Option.map_some]
        · by_cases h4 : c = cNL
          · subst h4
            have hd : ¬ (cBS = cDQ ∨ cBS = cNL) := by decide
            have h6 : (110 : Nat) ≠ cBS := by decide
            have h7 : (110 : Nat) ≠ cDQ := by decide
            simp only [escBB, h1, h2, if_false]
            rw [escapeString.eq_def]; simp only [h1, h3, if_false, if_true]
            rw [pyStringBody.eq_def]; simp only [hd, if_false, if_true, h6, h7, ih, Option.map_some]
          · simp only [escBB, h1, h2, if_false]
            rw [escapeString.eq_def]; simp only [h1, h3, h4, if_false]
            rw [pyStringBody.eq_def]; simp only [h3, h4, or_self, h1, if_false, ih, Option.map_some]

/-- C18, string path: **every** string is escaped into the body of exactly one Python string literal:
    no raw quote, no raw newline, no dangling backslash.  (Before the repair of F24 this needed the
    hypothesis `wellPaired s`; a two-character string ending in a backslash was the counterexample.) -/
theorem escape_is_one_literal (s : Str) : (pyStringBody (escapeString s)).isSome = true := by
  induction s using escapeString.induct with
  | case1 => simp [escapeString, pyStringBody]
  | case2 =>
    rw [escapeString.eq_def]; simp only [if_true]
    have hd : ¬ (cBS = cDQ ∨ cBS = cNL) := by decide
    rw [pyStringBody.eq_def]; simp only [hd, if_false, if_true]
    rw [pyStringBody.eq_def]; simp
  | case3 ds ih =>
    rw [escapeString.eq_def]; simp only [if_true]
    have hd : ¬ (cBQ = cDQ ∨ cBQ = cNL) := by decide
    have hb : cBQ ≠ cBS := by decide
    rw [pyStringBody.eq_def]; simp only [hd, hb, if_false]
    have := ih
    cases hp : pyStringBody (escapeString ds) with
    | none => rw [hp] at this; simp at this
    | some r => simp
  | case4 d ds hdq ih =>
    rw [escapeString.eq_def]; simp only [if_true, hdq, if_false]
    have hd : ¬ (cBS = cDQ ∨ cBS = cNL) := by decide
    rw [pyStringBody.eq_def]; simp only [hd, if_false, if_true]
    have := ih
    cases hp : pyStringBody (escapeString ds) with
    | none => rw [hp] at this; simp at this
    | some r => simp
  | case5 cs hbs ih =>
    have h5 : cDQ ≠ cBS := by decide
    rw [escapeString.eq_def]; simp only [h5, if_false, if_true]
    have hd : ¬ (cBS = cDQ ∨ cBS = cNL) := by decide
    rw [pyStringBody.eq_def]; simp only [hd, if_false, if_true]
    have := ih
    cases hp : pyStringBody (escapeString cs) with
    | none => rw [hp] at this; simp at this
    | some r => simp
  | case6 cs hbs hdq ih =>
    have h5 : cNL ≠ cBS := by decide
    rw [escapeString.eq_def]
    have h6 : cNL ≠ cDQ := by decide
    simp only [h5, h6, if_false, if_true]
    have hd : ¬ (cBS = cDQ ∨ cBS = cNL) := by decide
    rw [pyStringBody.eq_def]; simp only [hd, if_false, if_true]
    have := ih
    cases hp : pyStringBody (escapeString cs) with
    | none => rw [hp] at this; simp at this
    | some r => simp
  | case7 c cs hbs hdq hnl ih =>
    rw [escapeString.eq_def]; simp only [hbs, hdq, hnl, if_false]
    rw [pyStringBody.eq_def]; simp only [hdq, hnl, or_self, hbs, if_false]
    have := ih
    cases hp : pyStringBody (escapeString cs) with
    | none => rw [hp] at this; simp at this
    | some r => simp

/-- the quoted text is a valid back-quote payload: every backslash and back-quote in it is escaped -/
theorem bqValid_escBB (s : Str) : bqValid (escBB s) = true := by
  induction s with
  | nil => rfl
  | cons c cs ih =>
    by_cases h1 : c = cBS
    · subst h1; simp only [escBB, if_true]; simpa [bqValid, cBS] using ih
    · by_cases h2 : c = cBQ
      · subst h2; simp only [escBB, h1, if_false, if_true]; simpa [bqValid, cBS] using ih
      · simp only [escBB, h1, h2, if_false]
        have h1' : c ≠ 92 := h1
        have h2' : c ≠ 96 := h2
        cases hcs : escBB cs with
        | nil => simp [bqValid, h1', h2']
        | cons d ds =>
          rw [hcs] at ih
          rw [bqValid.eq_def]
          simp [h1', h2', ih]

theorem wellPaired_escBB (s : Str) : wellPaired (escBB s) = true := by
  induction s with
  | nil => rw [escBB, wellPaired.eq_def]
  | cons c cs ih =>
    by_cases h1 : c = cBS
    · subst h1; simp only [escBB, if_true]; rw [wellPaired.eq_def]; simpa using ih
    · by_cases h2 : c = cBQ
      · subst h2; simp only [escBB, h1, if_false, if_true]; rw [wellPaired.eq_def]; simpa using ih
      · simp only [escBB, h1, h2, if_false]; rw [wellPaired.eq_def]; simpa [h1] using ih

/-! ### dictionary decompression leaves text without compression characters unchanged -/

theorem ud_plain (comp : Str) (small contents : List Str) (t : Str)
    (hc : ∀ c ∈ t, comp.contains c = false) (hw : wellPaired t = true) (ret : Str) :
    t.foldl (udStep comp small contents) ⟨ret, [], false⟩ = ⟨ret ++ t, [], false⟩ := by
  fun_induction wellPaired t generalizing ret with
  | case1 => simp
  | case2 => simp at hw
  | case3 d ds ih =>
    have hd : comp.contains d = false := hc d (by simp)
    have h := ih (fun x hx => hc x (by simp [hx])) hw (ret ++ [cBS, d])
    simp only [List.foldl_cons]
    have s1 : udStep comp small contents ⟨ret, [], false⟩ cBS = ⟨ret, [], true⟩ := by
      simp [udStep]
    have hd' : ¬ d ∈ comp := by simpa using hd
    have s2 : udStep comp small contents ⟨ret, [], true⟩ d = ⟨ret ++ [cBS, d], [], false⟩ := by
      simp [udStep, udFlush, hd']
    rw [s1, s2, h]; simp
  | case4 c cs hbs ih =>
    have hcc : comp.contains c = false := hc c (by simp)
    have h := ih (fun x hx => hc x (by simp [hx])) hw (ret ++ [c])
    simp only [List.foldl_cons]
    have hcc' : ¬ c ∈ comp := by simpa using hcc
    have s1 : udStep comp small contents ⟨ret, [], false⟩ c = ⟨ret ++ [c], [], false⟩ := by
      simp [udStep, hbs, hcc']
    rw [s1, h]; simp

theorem uncompress_plain_id (comp : Str) (small contents : List Str) (t : Str)
    (hc : ∀ c ∈ t, comp.contains c = false) (hw : wellPaired t = true) :
    uncompressDict comp small contents t = t := by
  simp [uncompressDict, ud_plain comp small contents t hc hw [], udFlush]
