import VyxalModel.Lemmas.Frag
/-!
# The simulation relation between the reference state and the Python state, and one lemma per template

`Rel σ π`: the Python variable `stack` holds the reference stack (in Python order), the four `ctx` lists, the
register, the ghost variable and the output agree, `retain_popped` / `use_top_input` are off, every program
variable `x` is the Python variable `VAR_x`, and no other Python variable shadows a library name.
At depth > 0 the running function's frame holds `stack` and the named parameters; the closure tables are related entry by entry.
-/
namespace Vy.Sem
open Vy PyAst

/-- `B` is a transpilation of `body` (with any starting identifier, with or without the `pass` of an empty body) -/
def IsTr (env : TEnv) (body : List Structure) (B : List PyStmt) : Prop :=
  ∃ k b k', transpileL env k body = .ok (b, k') ∧ (B = b ∨ B = orPass b)

/-- the arity expression in a lambda template denotes `a` -/
def ArE (e : PyExpr) (a : Int) : Prop := e = pyInt a ∨ (e = .attr ctxE "default_arity" ∧ a = 1)

/-- a live entry of the reference closure table and the Python function object with the same number -/
structure LamRel (env : TEnv) (rf : RFn) (pf : PFn) : Prop where
  params : pf.params = lambdaParams
  body : ∃ arE B, pf.body = lambdaPrologue arE ++ B ++ lambdaEpilogue ∧ ArE arE rf.arity ∧ IsTr env rf.body B
  arity : pf.arity = some (.int rf.arity)
  stored : pf.stored = rf.stored.map Val.int
  frag : fragL env.elements rf.body = true

structure Rel (env : TEnv) (A : Option Val) (σ : RSt) (π : PSt) : Prop where
  depth : π.depth = σ.depth
  params0 : σ.depth = 0 → σ.params = []
  stack : π.getVar ("stack", []) = some (.list σ.stack.reverse)
  ctxVals : π.ctxVals = σ.ctxVals
  inputs : π.inputs = σ.inputs
  register : π.register = σ.register
  ghost : π.ghost = σ.ghost
  out : π.out = σ.out
  printed : π.printed = σ.printed
  retain : π.retain = false
  useTop : π.useTop = false
  stacks : π.stacks = σ.stacks
  fnStack : π.fnStack = σ.fnStack
  gvars : ∀ x : Str, x ≠ [] → isLoopName x = false → lookupKV x σ.funcs = Option.none →
    lookupP ("VAR_", x) π.globals = lookupKV x σ.globals
  lvars : 0 < σ.depth → ∀ x : Str, x ≠ [] → isLoopName x = false → lookupP ("VAR_", x) π.locals = lookupKV x σ.params
  clean : ∀ h : String, h ∉ junkNames → h ≠ "stack" → π.getVar (h, []) = Option.none
  fnsLen : π.fns.length = σ.fns.length
  lams : ∀ (id : Nat) (rf : RFn), σ.fns[id]? = some rf → rf.live = true → ∃ pf, π.fns[id]? = some pf ∧ LamRel env rf pf
  /-- the list the running function popped its arguments from (by reference the caller's list): nothing rebinds it -/
  argVar : π.getVar ("arg_stack", []) = A
  gArg : lookupP ("arg_stack", []) π.globals = Option.none
  /-- every named function of the reference state is the Python function object held by `VAR_<name>` -/
  funcs : ∀ (name : Str) (ps : List Str) (body : List Structure), lookupKV name σ.funcs = some (ps, body) →
    name ≠ [] ∧ isLoopName name = false ∧ fragL env.elements body = true ∧
    ∃ id pf, lookupP ("VAR_", name) π.globals = some (.fn id) ∧ π.fns[id]? = some pf ∧ pf.params = lambdaParams ∧
      ∃ B raw, sanitise raw = name ∧ IsTr env body B ∧ pf.body = fnDefPrologue raw ps ++ B ++ fnDefEpilogue

variable {env : TEnv} {A : Option Val}

/-- signals correspond one to one -/
def sigP : Sig → PSig
  | .normal => .normal | .brk => .brk | .cont => .cont | .ret v => .ret (.list [v])

/-- the relation after a statement list: a `break` / `continue` template has already popped the loop's context value
    on the Python side, the reference loop pops it when the body hands the signal back; a `break` in a lambda has
    already popped the four bookkeeping lists -/
def Post (env : TEnv) (A : Option Val) (sg : Sig) (σ : RSt) (π : PSt) : Prop :=
  match sg with
  | .normal => Rel env A σ π
  | .brk | .cont => ∃ σ2, σ.dropCtx = .ok σ2 ∧ Rel env A σ2 π
  | .ret _ => ∃ σ2, σ.leaveLam = .ok σ2 ∧ Rel env A σ2 π

/-! ### updates that keep the relation -/

theorem setVar_globals_d0 (π : PSt) (k : PKey) (v : Val) (h : π.depth = 0) : (π.setVar k v).globals = setP k v π.globals := by
  simp [PSt.setVar, h]
theorem setVar_globals_pos (π : PSt) (k : PKey) (v : Val) (h : π.depth ≠ 0) : (π.setVar k v).globals = π.globals := by
  simp [PSt.setVar, h]
theorem setVar_locals_d0 (π : PSt) (k : PKey) (v : Val) (h : π.depth = 0) : (π.setVar k v).locals = π.locals := by
  simp [PSt.setVar, h]
theorem setVar_locals_pos (π : PSt) (k : PKey) (v : Val) (h : π.depth ≠ 0) : (π.setVar k v).locals = setP k v π.locals := by
  simp [PSt.setVar, h]

theorem globals_lookup_setVar (π : PSt) (k k2 : PKey) (v : Val) (hne : k2 ≠ k) :
    lookupP k2 (π.setVar k v).globals = lookupP k2 π.globals := by
  by_cases hd : π.depth = 0
  · rw [setVar_globals_d0 _ _ _ hd, lookupP_setP_ne _ _ _ _ hne]
  · rw [setVar_globals_pos _ _ _ hd]

/-- the named-function part of the relation survives binding any Python name that is not a function's -/
theorem funcs_setVar {σ : RSt} {π : PSt} (h : Rel env A σ π) (k : PKey) (v : Val)
    (hk : ∀ name ps body, lookupKV name σ.funcs = some (ps, body) → k ≠ ("VAR_", name)) :
    ∀ (name : Str) (ps : List Str) (body : List Structure), lookupKV name σ.funcs = some (ps, body) →
      name ≠ [] ∧ isLoopName name = false ∧ fragL env.elements body = true ∧
      ∃ id pf, lookupP ("VAR_", name) (π.setVar k v).globals = some (.fn id) ∧ (π.setVar k v).fns[id]? = some pf ∧ pf.params = lambdaParams ∧
        ∃ B raw, sanitise raw = name ∧ IsTr env body B ∧ pf.body = fnDefPrologue raw ps ++ B ++ fnDefEpilogue := by
  intro name ps body hf
  obtain ⟨h1, h2, h3, id, pf, h4, h5, h6, h7⟩ := h.funcs name ps body hf
  refine ⟨h1, h2, h3, id, pf, ?_, by simpa using h5, h6, h7⟩
  rw [globals_lookup_setVar _ _ _ _ (Ne.symm (hk name ps body hf))]; exact h4

/-- binding a Python name that is neither `stack` nor a program variable nor a library name -/
theorem Rel.setVarFrame {σ : RSt} {π : PSt} (h : Rel env A σ π) (k : PKey) (v : Val)
    (hst : k ≠ ("stack", [])) (hvar : ∀ x : Str, x ≠ [] → isLoopName x = false → k ≠ ("VAR_", x))
    (hcl : ∀ f : String, f ∉ junkNames → k ≠ (f, [])) (harg : k ≠ ("arg_stack", [])) :
    Rel env A σ (π.setVar k v) := by
  refine ⟨by simp [h.depth], h.params0, ?_, by simp [h.ctxVals], by simp [h.inputs], by simp [h.register], by simp [h.ghost],
    by simp [h.out], by simp [h.printed], by simp [h.retain], by simp [h.useTop], by simp [h.stacks], by simp [h.fnStack],
    ?_, ?_, ?_, by simp [h.fnsLen], by simpa using h.lams, ?_, ?_, ?_⟩
  · rw [getVar_setVar_ne _ _ _ _ (Ne.symm hst)]; exact h.stack
  · intro x hx hl hf
    by_cases hd : π.depth = 0
    · rw [setVar_globals_d0 _ _ _ hd, lookupP_setP_ne _ _ _ _ (Ne.symm (hvar x hx hl))]; exact h.gvars x hx hl hf
    · rw [setVar_globals_pos _ _ _ hd]; exact h.gvars x hx hl hf
  · intro hpos x hx hl
    have hd : π.depth ≠ 0 := by rw [h.depth]; omega
    rw [setVar_locals_pos _ _ _ hd, lookupP_setP_ne _ _ _ _ (Ne.symm (hvar x hx hl))]; exact h.lvars hpos x hx hl
  · intro f hj hs
    rw [getVar_setVar_ne _ _ _ _ (Ne.symm (hcl f hj))]; exact h.clean f hj hs
  · rw [getVar_setVar_ne _ _ _ _ (Ne.symm harg)]; exact h.argVar
  · rw [globals_lookup_setVar _ _ _ _ (Ne.symm harg)]; exact h.gArg
  · apply funcs_setVar h
    intro name ps body hf
    obtain ⟨h1, h2, _⟩ := h.funcs name ps body hf
    exact hvar name h1 h2

theorem Rel.setJunk {σ : RSt} {π : PSt} (h : Rel env A σ π) (name : String) (v : Val) (hj : name ∈ junkNames)
    (hna : name ≠ "arg_stack" := by decide) :
    Rel env A σ (π.setVar (name, []) v) := by
  apply h.setVarFrame
  · intro he; have : name = "stack" := by injection he
    subst this; revert hj; decide
  · intro x hx _ he; injection he with h1 h2; exact hx h2.symm
  · intro f hf he; injection he with h1 h2; subst h1; exact hf hj
  · intro he; injection he with h1 _; exact hna h1

/-- the Python state after `stack` is rebound -/
theorem Rel.setStack {σ : RSt} {π : PSt} (h : Rel env A σ π) (st : List Val) :
    Rel env A { σ with stack := st } (π.setVar ("stack", []) (.list st.reverse)) := by
  refine ⟨by simp [h.depth], h.params0, ?_, by simp [h.ctxVals], by simp [h.inputs], by simp [h.register], by simp [h.ghost],
    by simp [h.out], by simp [h.printed], by simp [h.retain], by simp [h.useTop], by simp [h.stacks], by simp [h.fnStack],
    ?_, ?_, ?_, by simp [h.fnsLen], by simpa using h.lams, ?_, ?_, ?_⟩
  · exact getVar_setVar_eq _ _ _
  · intro x hx hl hf
    by_cases hd : π.depth = 0
    · rw [setVar_globals_d0 _ _ _ hd, lookupP_setP_ne]; exact h.gvars x hx hl hf
      intro he; injection he with h1 _; exact absurd h1 (by decide)
    · rw [setVar_globals_pos _ _ _ hd]; exact h.gvars x hx hl hf
  · intro hpos x hx hl
    have hd : π.depth ≠ 0 := by rw [h.depth]; exact Nat.pos_iff_ne_zero.mp hpos
    rw [setVar_locals_pos _ _ _ hd, lookupP_setP_ne]; exact h.lvars hpos x hx hl
    intro he; injection he with h1 _; exact absurd h1 (by decide)
  · intro f hj hs
    rw [getVar_setVar_ne]; exact h.clean f hj hs
    intro he; injection he with h1 _; exact hs h1
  · rw [getVar_setVar_ne]; exact h.argVar
    intro he; injection he with h1 _; exact absurd h1 (by decide)
  · rw [globals_lookup_setVar]; exact h.gArg
    intro he; injection he with h1 _; exact absurd h1 (by decide)
  · apply funcs_setVar h
    intro name ps body hf he; injection he with h1 _; exact absurd h1 (by decide)

/-- reading a program variable: the frame first, then the module -/
theorem Rel.getVar_prog {σ : RSt} {π : PSt} (h : Rel env A σ π) (x : Str) (hx : x ≠ []) (hl : isLoopName x = false)
    (hf : lookupKV x σ.funcs = Option.none) :
    π.getVar ("VAR_", x) = (match lookupKV x σ.params with
      | some v => some v
      | Option.none => lookupKV x σ.globals) := by
  unfold PSt.getVar
  by_cases hd : π.depth = 0
  · have hd0 : σ.depth = 0 := by rw [← h.depth]; exact hd
    simp only [hd, ↓reduceIte, h.params0 hd0, lookupKV]
    exact h.gvars x hx hl hf
  · have hpos : 0 < σ.depth := by rw [← h.depth]; omega
    simp only [hd, ↓reduceIte, h.lvars hpos x hx hl]
    cases lookupKV x σ.params with
    | some v => rfl
    | none => exact h.gvars x hx hl hf

theorem pop1_depth (σ : RSt) : σ.pop1.2.depth = σ.depth := by
  simp only [RSt.pop1]; split <;> rfl

theorem Rel.getStack {σ : RSt} {π : PSt} (h : Rel env A σ π) : π.getVar ("stack", []) = some (.list σ.stack.reverse) := h.stack

theorem Rel.setInputs {σ : RSt} {π : PSt} (h : Rel env A σ π) (ins : List (List Val × Nat)) :
    Rel env A { σ with inputs := ins } { π with inputs := ins } :=
  ⟨h.depth, h.params0, h.stack, h.ctxVals, rfl, h.register, h.ghost, h.out, h.printed, h.retain, h.useTop, h.stacks, h.fnStack,
   h.gvars, h.lvars, h.clean, h.fnsLen, h.lams, h.argVar, h.gArg, h.funcs⟩

@[simp] theorem specialOf_pop : specialOf "pop" = some .pop := by decide
@[simp] theorem specialOf_wrapify : specialOf "wrapify" = some .wrapify := by decide
@[simp] theorem specialOf_len : specialOf "len" = some .len := by decide
@[simp] theorem specialOf_list : specialOf "list" = some .list_ := by decide
@[simp] theorem specialOf_deep_copy : specialOf "deep_copy" = some .deep_copy := by decide
@[simp] theorem specialOf_iterable : specialOf "iterable" = some .iterable := by decide
@[simp] theorem specialOf_boolify : specialOf "boolify" = some .boolify := by decide
@[simp] theorem specialOf_get_input : specialOf "get_input" = some .get_input := by decide
@[simp] theorem specialOf_vy_print : specialOf "vy_print" = some .vy_print := by decide

/-! ### `pop(stack, k, ctx)` -/

/-- the Python state after `pop(stack, k, ctx)` -/
def popPi (σ : RSt) (π : PSt) (k : Nat) : PSt :=
  ({ π with inputs := (popN k σ.stack σ.inputs).2.2 }).setVar ("stack", []) (.list (popN k σ.stack σ.inputs).2.1.reverse)

theorem rel_popPi {σ : RSt} {π : PSt} (h : Rel env A σ π) (k : Nat) : Rel env A (σ.popK k).2 (popPi σ π k) := by
  have h1 := (h.setInputs (popN k σ.stack σ.inputs).2.2).setStack (popN k σ.stack σ.inputs).2.1
  simpa [RSt.popK, popPi] using h1

/-- what `pop` returns: the value itself for a count of 1, else the list of popped values -/
def popVal (k : Nat) (p : List Val) : Val :=
  match k, p with
  | 1, [v] => v
  | _, p => .list p

theorem eval_pop_nat {σ : RSt} {π : PSt} (cfg : Cfg) (n : Nat) (h : Rel env A σ π) (k : Nat)
    (rest : List PyExpr) (kw : List (String × PyExpr)) :
    evalE cfg n (.call (.name "pop") (.name "stack" :: .cint (k : Int) :: rest) kw) π =
        .ok (popVal k (σ.popK k).1, popPi σ π k) := by
  simp only [evalE, specialOf_pop, evalSpecial, asNat, R_ok_bind]
  simp [h.getStack, popPy_rev, h.retain, h.inputs, RSt.popK, popPi, popVal]
  have hk : ¬ ((k : Int) < 0) := by omega
  simp only [hk, ↓reduceIte, R_ok_bind]
  split <;> simp_all

theorem eval_pop {σ : RSt} {π : PSt} (cfg : Cfg) (n : Nat) (h : Rel env A σ π) (i : Int) (k : Nat) (hik : i = (k : Int))
    (rest : List PyExpr) (kw : List (String × PyExpr)) :
    evalE cfg n (.call (.name "pop") (.name "stack" :: .cint i :: rest) kw) π =
        .ok (popVal k (σ.popK k).1, popPi σ π k) := by
  rw [hik]; exact eval_pop_nat cfg n h k rest kw

theorem popK_one (σ : RSt) : (σ.popK 1).1 = [σ.pop1.1] ∧ (σ.popK 1).2 = σ.pop1.2 := by
  have hl := popN_length 1 σ.stack σ.inputs
  simp only [RSt.popK, RSt.pop1]
  match hp : popN 1 σ.stack σ.inputs with
  | (x :: rest, st, ins) =>
    rw [hp] at hl; simp at hl; subst hl; simp
  | ([], st, ins) => rw [hp] at hl; simp at hl

theorem eval_pop1kw {σ : RSt} {π : PSt} (cfg : Cfg) (n : Nat) (h : Rel env A σ π) :
    evalE cfg n pop1kw π = .ok (σ.pop1.1, popPi σ π 1) := by
  have := eval_pop cfg n h 1 1 rfl [] kwCtx
  simp only [pop1kw, stackE]
  rw [this, (popK_one σ).1]; rfl

theorem eval_pop1pos {σ : RSt} {π : PSt} (cfg : Cfg) (n : Nat) (h : Rel env A σ π) :
    evalE cfg n pop1pos π = .ok (σ.pop1.1, popPi σ π 1) := by
  have := eval_pop cfg n h 1 1 rfl [ctxE] []
  simp only [pop1pos, stackE]
  rw [this, (popK_one σ).1]; rfl

theorem rel_pop1 {σ : RSt} {π : PSt} (h : Rel env A σ π) : Rel env A σ.pop1.2 (popPi σ π 1) := by
  have := rel_popPi h 1
  rwa [(popK_one σ).2] at this

/-! ### `stack.append(e)` and assignments to template-local names -/

theorem exec_push {σ1 : RSt} {π π1 : PSt} (cfg : Cfg) (n : Nat) (e : PyExpr) (v : Val)
    (he : evalE cfg n e π = .ok (v, π1)) (h1 : Rel env A σ1 π1) :
    execPS cfg n (push e) π = .ok (.normal, π1.setVar ("stack", []) (.list ((v :: σ1.stack).reverse))) ∧
    Rel env A (σ1.push v) (π1.setVar ("stack", []) (.list ((v :: σ1.stack).reverse))) := by
  constructor
  · simp [push, stackE, execPS, he, h1.getStack]
  · exact h1.setStack (v :: σ1.stack)

theorem exec_assign_name (cfg : Cfg) (n : Nat) (x : String) (e : PyExpr) (v : Val) (π π1 : PSt)
    (he : evalE cfg n e π = .ok (v, π1)) :
    execPS cfg n (.assign [.name x] e) π = .ok (.normal, π1.setVar (x, []) v) := by
  simp [execPS, he, assignTo]

/-! ### the `process_element` boilerplate -/

theorem evalE_name (cfg : Cfg) (n : Nat) (x : String) (π : PSt) (v : Val) (h : π.getVar (x, []) = some v) :
    evalE cfg n (.name x) π = .ok (v, π) := by
  simp [evalE, h]

theorem Rel.clean' {σ : RSt} {π : PSt} (h : Rel env A σ π) (f : String) (hj : f ∉ junkNames) (hs : f ≠ "stack") :
    π.getVar (f, []) = Option.none := h.clean f hj hs

/-- calling an element function by name -/
theorem eval_elemCall {σ : RSt} {π : PSt} (cfg : Cfg) (n : Nat) (h : Rel env A σ π) (f : String) (args : List PyExpr) (vs : List Val)
    (r : Val) (hsp : specialOf f = Option.none) (hj : f ∉ junkNames) (hs : f ≠ "stack")
    (hargs : evalArgs cfg n args π = .ok (vs, π)) (hnf : ∀ x ∈ vs, isFnVal x = false) (hr : elemFn f vs = .ok r)
    (kw : List (String × PyExpr) := [("ctx", .name "ctx")]) :
    evalE cfg n (.call (.name f) args kw) π = .ok (r, π) := by
  simp [evalE, hsp, callVar, h.clean' f hj hs, hargs, hr]
  exact hnf

theorem popK_len (σ : RSt) (k : Nat) : (σ.popK k).1.length = k := by
  simp [RSt.popK, popN_length]

theorem exec_appendCall {σ : RSt} {π : PSt} (cfg : Cfg) (n : Nat) (h : Rel env A σ π) (f : String) (args : List PyExpr) (vs : List Val)
    (r : Val) (hsp : specialOf f = Option.none) (hj : f ∉ junkNames) (hs : f ≠ "stack")
    (hargs : evalArgs cfg n args π = .ok (vs, π)) (hnf : ∀ x ∈ vs, isFnVal x = false) (hr : elemFn f vs = .ok r) :
    ∃ π', execPS cfg n (appendCall f args) π = .ok (.normal, π') ∧ Rel env A (σ.push r) π' := by
  have hc := eval_elemCall cfg n h f args vs r hsp hj hs hargs hnf hr
  obtain ⟨he, hR⟩ := exec_push cfg n _ r hc h
  exact ⟨_, he, hR⟩

theorem exec_assign_tuple2 (cfg : Cfg) (n : Nat) (x y : String) (e : PyExpr) (a b : Val) (π π1 : PSt)
    (he : evalE cfg n e π = .ok (.list [a, b], π1)) :
    execPS cfg n (.assign [.tuple [.name x, .name y]] e) π = .ok (.normal, (π1.setVar (x, []) a).setVar (y, []) b) := by
  simp [execPS, he, assignTo, List.foldlM]

theorem exec_assign_tuple3 (cfg : Cfg) (n : Nat) (x y z : String) (e : PyExpr) (a b c : Val) (π π1 : PSt)
    (he : evalE cfg n e π = .ok (.list [a, b, c], π1)) :
    execPS cfg n (.assign [.tuple [.name x, .name y, .name z]] e) π =
      .ok (.normal, ((π1.setVar (x, []) a).setVar (y, []) b).setVar (z, []) c) := by
  simp [execPS, he, assignTo, List.foldlM]

theorem exec_boilerplate {σ : RSt} {π : PSt} (cfg : Cfg) (n : Nat) (h : Rel env A σ π) (k : Nat) (hk : k ≤ 3) (f : String)
    (r : Val) (hsp : specialOf f = Option.none) (hj : f ∉ junkNames) (hs : f ≠ "stack")
    (hnf : ∀ x ∈ (σ.popK k).1, isFnVal x = false) (hr : elemFn f (σ.popK k).1.reverse = .ok r) :
    ∃ π', execPL cfg n (boilerplate k f) π = .ok (.normal, π') ∧ Rel env A ((σ.popK k).2.push r) π' := by
  have hl := popK_len σ k
  have hrel := rel_popPi h k
  match k, hk with
  | 0, _ =>
    have hp : (σ.popK 0).1 = [] := by simpa using hl
    rw [hp] at hr
    simp only [boilerplate, execPL_cons, popStackE]
    rw [exec_assign_name cfg n "_" _ _ π _ (eval_pop cfg n h 0 0 rfl [.name "ctx"] [])]
    simp only
    have hrel' := hrel.setJunk "_" (popVal 0 (σ.popK 0).1) (by decide)
    obtain ⟨π', he, hR⟩ := exec_appendCall cfg n hrel' f [] [] r hsp hj hs (by simp [evalArgs]) (by simp) (by simpa using hr)
    exact ⟨π', by rw [he]; simp [execPL], hR⟩
  | 1, _ =>
    obtain ⟨a, hp⟩ : ∃ a, (σ.popK 1).1 = [a] := by
      match hq : (σ.popK 1).1, hl with
      | [a], _ => exact ⟨a, rfl⟩
    rw [hp] at hr hnf
    simp only [boilerplate, execPL_cons, popStackE]
    rw [exec_assign_name cfg n "lhs" _ _ π _ (eval_pop cfg n h 1 1 rfl [.name "ctx"] [])]
    simp only
    have hrel' := hrel.setJunk "lhs" (popVal 1 (σ.popK 1).1) (by decide)
    have hargs : evalArgs cfg n [.name "lhs"] ((popPi σ π 1).setVar ("lhs", []) (popVal 1 (σ.popK 1).1)) =
        .ok ([a], (popPi σ π 1).setVar ("lhs", []) (popVal 1 (σ.popK 1).1)) := by
      simp [evalArgs, isCtxName, evalE_name _ _ "lhs" _ _ (getVar_setVar_eq _ _ _), hp, popVal]
    obtain ⟨π', he, hR⟩ := exec_appendCall cfg n hrel' f _ _ r hsp hj hs hargs (by simpa using hnf) (by simpa using hr)
    exact ⟨π', by rw [he]; simp [execPL], hR⟩
  | 2, _ =>
    obtain ⟨a, b, hp⟩ : ∃ a b, (σ.popK 2).1 = [a, b] := by
      match hq : (σ.popK 2).1, hl with
      | [a, b], _ => exact ⟨a, b, rfl⟩
    rw [hp] at hr hnf
    simp only [boilerplate, execPL_cons, popStackE]
    have hpop := eval_pop cfg n h 2 2 rfl [.name "ctx"] []
    rw [hp, show popVal 2 [a, b] = .list [a, b] from rfl] at hpop
    rw [exec_assign_tuple2 cfg n "rhs" "lhs" _ a b π _ hpop]
    simp only
    have hrel' := (hrel.setJunk "rhs" a (by decide)).setJunk "lhs" b (by decide)
    have hargs : evalArgs cfg n [.name "lhs", .name "rhs"] (((popPi σ π 2).setVar ("rhs", []) a).setVar ("lhs", []) b) =
        .ok ([b, a], ((popPi σ π 2).setVar ("rhs", []) a).setVar ("lhs", []) b) := by
      have h1 : (((popPi σ π 2).setVar ("rhs", []) a).setVar ("lhs", []) b).getVar ("lhs", []) = some b := getVar_setVar_eq _ _ _
      have h2 : (((popPi σ π 2).setVar ("rhs", []) a).setVar ("lhs", []) b).getVar ("rhs", []) = some a := by
        rw [getVar_setVar_ne _ _ _ _ (by decide)]; exact getVar_setVar_eq _ _ _
      simp [evalArgs, isCtxName, evalE_name _ _ _ _ _ h1, evalE_name _ _ _ _ _ h2]
    obtain ⟨π', he, hR⟩ := exec_appendCall cfg n hrel' f _ _ r hsp hj hs hargs (by simpa [and_comm] using hnf) (by simpa using hr)
    exact ⟨π', by rw [he]; simp [execPL], hR⟩
  | 3, _ =>
    obtain ⟨a, b, c, hp⟩ : ∃ a b c, (σ.popK 3).1 = [a, b, c] := by
      match hq : (σ.popK 3).1, hl with
      | [a, b, c], _ => exact ⟨a, b, c, rfl⟩
    rw [hp] at hr hnf
    simp only [boilerplate, execPL_cons, popStackE]
    have hpop := eval_pop cfg n h 3 3 rfl [.name "ctx"] []
    rw [hp, show popVal 3 [a, b, c] = .list [a, b, c] from rfl] at hpop
    rw [exec_assign_tuple3 cfg n "third" "rhs" "lhs" _ a b c π _ hpop]
    simp only
    have hrel' := ((hrel.setJunk "third" a (by decide)).setJunk "rhs" b (by decide)).setJunk "lhs" c (by decide)
    have hargs : evalArgs cfg n [.name "lhs", .name "rhs", .name "third"]
          ((((popPi σ π 3).setVar ("third", []) a).setVar ("rhs", []) b).setVar ("lhs", []) c) =
        .ok ([c, b, a], (((popPi σ π 3).setVar ("third", []) a).setVar ("rhs", []) b).setVar ("lhs", []) c) := by
      have h1 : ((((popPi σ π 3).setVar ("third", []) a).setVar ("rhs", []) b).setVar ("lhs", []) c).getVar ("lhs", []) = some c :=
        getVar_setVar_eq _ _ _
      have h2 : ((((popPi σ π 3).setVar ("third", []) a).setVar ("rhs", []) b).setVar ("lhs", []) c).getVar ("rhs", []) = some b := by
        rw [getVar_setVar_ne _ _ _ _ (by decide)]; exact getVar_setVar_eq _ _ _
      have h3 : ((((popPi σ π 3).setVar ("third", []) a).setVar ("rhs", []) b).setVar ("lhs", []) c).getVar ("third", []) = some a := by
        rw [getVar_setVar_ne _ _ _ _ (by decide), getVar_setVar_ne _ _ _ _ (by decide)]; exact getVar_setVar_eq _ _ _
      simp [evalArgs, isCtxName, evalE_name _ _ _ _ _ h1, evalE_name _ _ _ _ _ h2, evalE_name _ _ _ _ _ h3]
    obtain ⟨π', he, hR⟩ := exec_appendCall cfg n hrel' f _ _ r hsp hj hs hargs
      (by intro x hx; simp at hx; apply hnf; simp; rcases hx with h | h | h <;> simp [h]) (by simpa using hr)
    exact ⟨π', by rw [he]; simp [execPL], hR⟩


theorem Rel.setCtxVals {σ : RSt} {π : PSt} (h : Rel env A σ π) (cv : List Val) :
    Rel env A { σ with ctxVals := cv } { π with ctxVals := cv } :=
  ⟨h.depth, h.params0, h.stack, rfl, h.inputs, h.register, h.ghost, h.out, h.printed, h.retain, h.useTop, h.stacks, h.fnStack,
   h.gvars, h.lvars, h.clean, h.fnsLen, h.lams, h.argVar, h.gArg, h.funcs⟩

theorem exec_ctxAppend (cfg : Cfg) (n : Nat) (e : PyExpr) (v : Val) (π : PSt) (he : evalE cfg n e π = .ok (v, π)) :
    execPS cfg n (ctxCall "context_values" "append" [e]) π = .ok (.normal, { π with ctxVals := v :: π.ctxVals }) := by
  simp [ctxCall, ctxE, execPS, ctxListOp, he]

theorem exec_ctxPop (cfg : Cfg) (n : Nat) (π : PSt) (x : Val) (r : List Val) (h : π.ctxVals = x :: r) :
    execPS cfg n (ctxCall "context_values" "pop" []) π = .ok (.normal, { π with ctxVals := r }) := by
  simp [ctxCall, ctxE, execPS, ctxListOp, h]

/-- `condition = pop(stack, 1, ctx=ctx)` -/
theorem exec_condPop {σ : RSt} {π : PSt} (cfg : Cfg) (n : Nat) (h : Rel env A σ π) :
    execPS cfg n condPop π = .ok (.normal, (popPi σ π 1).setVar ("condition", []) σ.pop1.1) ∧
    Rel env A σ.pop1.2 ((popPi σ π 1).setVar ("condition", []) σ.pop1.1) := by
  constructor
  · simp only [condPop, assign1, nm]
    exact exec_assign_name cfg n "condition" _ _ π _ (eval_pop1kw cfg n h)
  · exact (rel_pop1 h).setJunk "condition" _ (by decide)

@[simp] theorem pyTruth_b2i (b : Bool) : pyTruth (.int (b2i b)) = b := by
  cases b <;> simp [pyTruth, b2i]

theorem eval_boolifyCond (cfg : Cfg) (n : Nat) (π : PSt) (x : Val) (h : π.getVar ("condition", []) = some x) :
    evalE cfg n boolifyCond π = .ok (.int (b2i (truthy x)), π) := by
  simp [boolifyCond, callN, nm, evalE, evalSpecial, h]


/-- `code` simulates `prog` at fuel `n`: from related states, whenever the reference semantics is defined, the
    Python semantics yields the corresponding signal and a related state -/
def Sims (cfg : Cfg) (env : TEnv) (n : Nat) (prog : List Structure) (code : List PyStmt) : Prop :=
  ∀ (A : Option Val) σ π sg σ', Rel env A σ π → execL cfg n prog σ = .ok (sg, σ') →
    ∃ π', execPL cfg n code π = .ok (sigP sg, π') ∧ Post env A sg σ' π'

inductive All2 {α β} (R : α → β → Prop) : List α → List β → Prop
  | nil : All2 R [] []
  | cons {a b as bs} : R a b → All2 R as bs → All2 R (a :: as) (b :: bs)

theorem ifChain_cons2 (b0 b1 : List PyStmt) (rest : List (List PyStmt)) :
    ifChain (b0 :: b1 :: rest) = [condPop, .ifS boolifyCond b0 (b1 ++ ifChain rest)] := by
  cases rest with
  | nil => simp [ifChain]
  | cons r rs => simp [ifChain]

theorem exec_if (cfg : Cfg) (n : Nat) (π : PSt) (x : Val) (t e : List PyStmt) (h : π.getVar ("condition", []) = some x) :
    execPS cfg n (.ifS boolifyCond t e) π = if truthy x then execPL cfg n t π else execPL cfg n e π := by
  simp [execPS, eval_boolifyCond cfg n π x h]

theorem sim_ifChain (cfg : Cfg) (n : Nat) :
    ∀ (bs : List (List Structure)) (cs : List (List PyStmt)), All2 (Sims cfg env n) bs cs →
    ∀ σ π sg σ', Rel env A σ π → execIf cfg n bs σ = .ok (sg, σ') →
      ∃ π', execPL cfg n (ifChain cs) π = .ok (sigP sg, π') ∧ Post env A sg σ' π'
  | [], [], _, σ, π, sg, σ', h, hr => by
      simp [execIf] at hr; obtain ⟨h1, h2⟩ := hr; subst h1; subst h2
      exact ⟨π, by simp [ifChain, execPL, sigP], h⟩
  | [b0], [c0], hall, σ, π, sg, σ', h, hr => by
      obtain ⟨hc, hR⟩ := exec_condPop cfg n h
      have h0 : Sims cfg env n b0 c0 := by cases hall; assumption
      simp only [execIf] at hr
      simp only [ifChain, execPL_cons, hc]
      rw [exec_if cfg n _ σ.pop1.1 _ _ (getVar_setVar_eq _ _ _)]
      by_cases ht : truthy σ.pop1.1
      · simp only [ht, ↓reduceIte] at hr ⊢
        obtain ⟨π', he, hP⟩ := h0 _ _ _ _ _ hR hr
        refine ⟨π', ?_, hP⟩
        rw [he]; cases sg <;> simp [sigP, execPL]
      · simp only [ht] at hr ⊢
        simp at hr; obtain ⟨h1, h2⟩ := hr; subst h1; subst h2
        exact ⟨_, by simp [execPL, sigP], hR⟩
  | b0 :: b1 :: rest, c0 :: c1 :: crest, hall, σ, π, sg, σ', h, hr => by
      obtain ⟨hc, hR⟩ := exec_condPop cfg n h
      have h0 : Sims cfg env n b0 c0 := by cases hall; assumption
      have h1 : Sims cfg env n b1 c1 := by cases hall with | cons _ t => cases t; assumption
      have hrest : All2 (Sims cfg env n) rest crest := by cases hall with | cons _ t => cases t; assumption
      simp only [execIf] at hr
      rw [ifChain_cons2]
      simp only [execPL_cons, hc]
      rw [exec_if cfg n _ σ.pop1.1 _ _ (getVar_setVar_eq _ _ _)]
      by_cases ht : truthy σ.pop1.1
      · simp only [ht, ↓reduceIte] at hr ⊢
        obtain ⟨π', he, hP⟩ := h0 _ _ _ _ _ hR hr
        refine ⟨π', ?_, hP⟩
        rw [he]; cases sg <;> simp [sigP, execPL]
      · simp only [ht] at hr ⊢
        simp only [Bool.false_eq_true, ↓reduceIte] at hr ⊢
        cases hb : execL cfg n b1 σ.pop1.2 with
        | error e => simp [hb] at hr
        | ok r =>
          obtain ⟨sg1, σ1⟩ := r
          obtain ⟨π1, he1, hP1⟩ := h1 _ _ _ _ _ hR hb
          simp only [hb, R_ok_bind] at hr
          rw [execPL_append, he1]
          cases sg1 with
          | normal =>
            simp only [sigP]
            obtain ⟨π', he, hP⟩ := sim_ifChain cfg n rest crest hrest _ _ _ _ hP1 hr
            refine ⟨π', ?_, hP⟩
            rw [he]; cases sg <;> simp [sigP, execPL]
          | brk => simp at hr; obtain ⟨h1, h2⟩ := hr; subst h1; subst h2; exact ⟨π1, by simp [sigP, execPL], hP1⟩
          | cont => simp at hr; obtain ⟨h1, h2⟩ := hr; subst h1; subst h2; exact ⟨π1, by simp [sigP, execPL], hP1⟩
          | ret v => simp at hr; obtain ⟨h1, h2⟩ := hr; subst h1; subst h2; exact ⟨π1, by simp [sigP, execPL], hP1⟩
  | [], _ :: _, hall, _, _, _, _, _, _ => by cases hall
  | _ :: _, [], hall, _, _, _, _, _, _ => by cases hall
  | [_], _ :: _ :: _, hall, _, _, _, _, _, _ => by cases hall with | cons _ t => cases t
  | _ :: _ :: _, [_], hall, _, _, _, _, _, _ => by cases hall with | cons _ t => cases t


/-! ### loops -/

def loopName (k : Nat) : Str := [76, 79, 79, 80] ++ digitsOfNat k

theorem isLoopName_loopName (k : Nat) : isLoopName (loopName k) = true := by
  simp [isLoopName, loopName, loopPrefix]

theorem loopName_ne_nil (k : Nat) : loopName k ≠ [] := by simp [loopName]

/-- the Python variable of an unnamed loop is outside the relation -/
theorem Rel.setLoopVar {σ : RSt} {π : PSt} (h : Rel env A σ π) (nm : Str) (hn : isLoopName nm = true) (hne : nm ≠ []) (v : Val) :
    Rel env A σ (π.setVar ("VAR_", nm) v) := by
  apply h.setVarFrame
  · intro he; injection he with h1 _; exact absurd h1 (by decide)
  · intro x _ hl he; injection he with _ h2; subst h2; rw [hn] at hl; exact absurd hl (by decide)
  · intro f _ he; injection he with _ h2; exact hne h2
  · intro he; injection he with h1 _; exact absurd h1 (by decide)

/-- a program variable at module level -/
theorem Rel.setProgVar {σ : RSt} {π : PSt} (h : Rel env A σ π) (hd0 : σ.depth = 0) (nm : Str) (hne : nm ≠ []) (v : Val)
    (hnf : lookupKV nm σ.funcs = Option.none) :
    Rel env A { σ with globals := setKV nm v σ.globals } (π.setVar ("VAR_", nm) v) := by
  have hd : π.depth = 0 := by rw [h.depth]; exact hd0
  refine ⟨by simp [h.depth], h.params0, ?_, by simp [h.ctxVals], by simp [h.inputs], by simp [h.register], by simp [h.ghost],
    by simp [h.out], by simp [h.printed], by simp [h.retain], by simp [h.useTop], by simp [h.stacks], by simp [h.fnStack],
    ?_, ?_, ?_, by simp [h.fnsLen], by simpa using h.lams, ?_, ?_, ?_⟩
  · rw [getVar_setVar_ne]; exact h.stack
    intro he; injection he with h1 _; exact absurd h1 (by decide)
  · intro x hx hl hf
    rw [setVar_globals_d0 _ _ _ hd]
    by_cases hxn : x = nm
    · subst hxn; rw [lookupP_setP_eq, lookupKV_setKV_eq]
    · rw [lookupP_setP_ne, lookupKV_setKV_ne _ _ _ _ hxn]; exact h.gvars x hx hl hf
      intro he; injection he with _ h2; exact hxn h2
  · intro hpos; exact absurd hd0 (by simp only at hpos; omega)
  · intro f hj hs
    rw [getVar_setVar_ne]; exact h.clean f hj hs
    intro he; injection he with _ h2; exact hne h2.symm
  · rw [getVar_setVar_ne]; exact h.argVar
    intro he; injection he with h1 _; exact absurd h1 (by decide)
  · rw [globals_lookup_setVar]; exact h.gArg
    intro he; injection he with h1 _; exact absurd h1 (by decide)
  · apply funcs_setVar h
    intro name ps body hf he; injection he with _ h2; subst h2; rw [hnf] at hf; exact absurd hf (by simp)

theorem Rel.setGhost {σ : RSt} {π : PSt} (h : Rel env A σ π) (v : Val) : Rel env A { σ with ghost := v } { π with ghost := v } :=
  ⟨h.depth, h.params0, h.stack, h.ctxVals, h.inputs, h.register, rfl, h.out, h.printed, h.retain, h.useTop, h.stacks, h.fnStack,
   h.gvars, h.lvars, h.clean, h.fnsLen, h.lams, h.argVar, h.gArg, h.funcs⟩

/-- the loop variable of a `for`: what the reference loop binds and the Python target -/
inductive ForVar : Option Str → PyExpr → Prop
  | unnamed (k : Nat) : ForVar Option.none (.pname "VAR_" (loopName k))
  | ghost : ForVar (some []) (.attr ctxE "ghost_variable")
  | named (v : Str) (hv : v ≠ []) : ForVar (some v) (.pname "VAR_" v)

theorem for_bind {σ : RSt} {π : PSt} (cfg : Cfg) (n : Nat) {var : Option Str} {pvar : PyExpr} (hv : ForVar var pvar) (h : Rel env A σ π) (x : Val)
    (hd : namedVar var = true → σ.depth = 0 ∧ lookupKV (var.getD []) σ.funcs = Option.none) :
    ∃ π0, assignTo pvar x π = .ok π0 ∧ Rel env A (bindFor var x σ) π0 ∧ evalE cfg n pvar π0 = .ok (x, π0) := by
  cases hv with
  | unnamed k =>
    refine ⟨π.setVar ("VAR_", loopName k) x, by simp [assignTo], ?_, ?_⟩
    · exact h.setLoopVar _ (isLoopName_loopName k) (loopName_ne_nil k) x
    · simp [evalE, getVar_setVar_eq]
  | ghost =>
    refine ⟨{ π with ghost := x }, by simp [assignTo, ctxE], ?_, ?_⟩
    · exact h.setGhost x
    · simp [evalE, ctxE, isCtxName]
  | named v hv =>
    refine ⟨π.setVar ("VAR_", v) x, by simp [assignTo], ?_, ?_⟩
    · cases v with
      | nil => exact absurd rfl hv
      | cons c cs => exact h.setProgVar (hd rfl).1 _ hv x (hd rfl).2
    · simp [evalE, getVar_setVar_eq]


/-- `Sims` at every fuel -/
def SimsAll (cfg : Cfg) (env : TEnv) (prog : List Structure) (code : List PyStmt) : Prop := ∀ n, Sims cfg env n prog code

theorem dropCtx_cons (σ : RSt) (x : Val) (r : List Val) (h : σ.ctxVals = x :: r) : σ.dropCtx = .ok { σ with ctxVals := r } := by
  simp [RSt.dropCtx, h]

theorem dropCtx_ok {σ σ2 : RSt} (h : σ.dropCtx = .ok σ2) : ∃ x r, σ.ctxVals = x :: r ∧ σ2 = { σ with ctxVals := r } := by
  unfold RSt.dropCtx at h
  match hc : σ.ctxVals with
  | [] => rw [hc] at h; simp at h
  | x :: r => rw [hc] at h; simp at h; exact ⟨x, r, rfl, h.symm⟩

/-- one iteration body of a loop: push the context value, run, pop -/
theorem sim_loopBody {σ : RSt} {π : PSt} (cfg : Cfg) (n : Nat) (body : List Structure) (pbody : List PyStmt)
    (hb : Sims cfg env n body pbody) (e : PyExpr) (x : Val) (h : Rel env A σ π) (he : evalE cfg n e π = .ok (x, π))
    (sg : Sig) (σ1 σ2 : RSt) (hr : execL cfg n body { σ with ctxVals := x :: σ.ctxVals } = .ok (sg, σ1))
    (hd : σ1.dropCtx = .ok σ2) (hnr : ∀ v, sg ≠ .ret v) :
    ∃ π2, execPL cfg n ([ctxCall "context_values" "append" [e]] ++ pbody ++ [ctxCall "context_values" "pop" []]) π =
        .ok (sigP sg, π2) ∧ Rel env A σ2 π2 := by
  have hR0 : Rel env A { σ with ctxVals := x :: σ.ctxVals } { π with ctxVals := x :: π.ctxVals } := by
    have := h.setCtxVals (x :: σ.ctxVals); rwa [h.ctxVals]
  obtain ⟨π1, he1, hP1⟩ := hb _ _ _ _ _ hR0 hr
  simp only [List.cons_append, List.nil_append, execPL_cons, exec_ctxAppend cfg n e x π he]
  rw [execPL_append, he1]
  cases sg with
  | normal =>
    obtain ⟨y, r, hc, h2⟩ := dropCtx_ok hd
    have hP1' : Rel env A σ1 π1 := hP1
    have hpc : π1.ctxVals = y :: r := by rw [hP1'.ctxVals, hc]
    simp only [sigP, execPL_cons, exec_ctxPop cfg n π1 y r hpc, execPL]
    refine ⟨_, rfl, ?_⟩
    subst h2; exact hP1'.setCtxVals r
  | brk =>
    obtain ⟨σ2', hd', hR⟩ := hP1
    rw [hd] at hd'; injection hd' with hd'; subst hd'
    exact ⟨π1, by simp [sigP], hR⟩
  | cont =>
    obtain ⟨σ2', hd', hR⟩ := hP1
    rw [hd] at hd'; injection hd' with hd'; subst hd'
    exact ⟨π1, by simp [sigP], hR⟩
  | ret v => exact absurd rfl (hnr v)

theorem sim_for (cfg : Cfg) (N : Nat) (body : List Structure) (pbody : List PyStmt) (hb : ∀ m, m < N → Sims cfg env m body pbody)
    (var : Option Str) (pvar : PyExpr) (hv : ForVar var pvar) :
    ∀ (n : Nat), n ≤ N → ∀ (items : List Val) (σ : RSt) (π : PSt) (sg : Sig) (σ' : RSt), Rel env A σ π →
      forLoop cfg n var body items σ = .ok (sg, σ') →
      ∃ π', forPy cfg n pvar ([ctxCall "context_values" "append" [pvar]] ++ pbody ++ [ctxCall "context_values" "pop" []]) items π =
          .ok (sigP sg, π') ∧ Post env A sg σ' π'
  | n, _, [], σ, π, sg, σ', h, hr => by
      simp [forLoop] at hr; obtain ⟨h1, h2⟩ := hr; subst h1; subst h2
      exact ⟨π, by simp [forPy, sigP], h⟩
  | 0, _, x :: xs, σ, π, sg, σ', h, hr => by simp [forLoop] at hr
  | n + 1, hn, x :: xs, σ, π, sg, σ', h, hr => by
      simp only [forLoop] at hr
      split at hr
      · simp at hr
      · rename_i hdep
        have hd : namedVar var = true → σ.depth = 0 ∧ lookupKV (var.getD []) σ.funcs = Option.none := by
          intro hnv
          have h1 : ¬ (σ.depth > 0) := fun hp => hdep ⟨hnv, Or.inl hp⟩
          have h2 : ¬ ((lookupKV (var.getD []) σ.funcs).isSome = true) := fun hp => hdep ⟨hnv, Or.inr hp⟩
          refine ⟨by omega, ?_⟩
          cases hlk : lookupKV (var.getD []) σ.funcs with
          | none => rfl
          | some _ => rw [hlk] at h2; simp at h2
        obtain ⟨π0, ha, hR0, hev⟩ := for_bind cfg n hv h x hd
        cases hbd : execL cfg n body { bindFor var x σ with ctxVals := x :: (bindFor var x σ).ctxVals } with
        | error e => simp [hbd] at hr
        | ok r1 =>
          obtain ⟨sg1, σ1⟩ := r1
          simp only [hbd, R_ok_bind] at hr
          cases hd1 : σ1.dropCtx with
          | error e => simp [hd1] at hr
          | ok σ2 =>
            simp only [hd1, R_ok_bind] at hr
            cases sg1 with
            | normal =>
              obtain ⟨π2, he2, hR2⟩ := sim_loopBody cfg n body pbody (hb n (by omega)) pvar x hR0 hev _ σ1 σ2 hbd hd1 (by intro v; simp)
              simp only [forPy, ha, R_ok_bind, he2, sigP]
              exact sim_for cfg N body pbody hb var pvar hv n (by omega) xs σ2 π2 sg σ' hR2 hr
            | cont =>
              obtain ⟨π2, he2, hR2⟩ := sim_loopBody cfg n body pbody (hb n (by omega)) pvar x hR0 hev _ σ1 σ2 hbd hd1 (by intro v; simp)
              simp only [forPy, ha, R_ok_bind, he2, sigP]
              exact sim_for cfg N body pbody hb var pvar hv n (by omega) xs σ2 π2 sg σ' hR2 hr
            | brk =>
              obtain ⟨π2, he2, hR2⟩ := sim_loopBody cfg n body pbody (hb n (by omega)) pvar x hR0 hev _ σ1 σ2 hbd hd1 (by intro v; simp)
              simp only [forPy, ha, R_ok_bind, he2]
              simp at hr; obtain ⟨h1, h2⟩ := hr; subst h1; subst h2
              exact ⟨π2, by simp [sigP], hR2⟩
            | ret v => simp at hr

theorem eval_nm_condition (cfg : Cfg) (n : Nat) (π : PSt) (x : Val) (h : π.getVar ("condition", []) = some x) :
    evalE cfg n (nm "condition") π = .ok (x, π) := by
  simp [nm, evalE, h]

theorem sim_while (cfg : Cfg) (N : Nat) (cond : Option (List Structure)) (pcond : List PyStmt)
    (hc : ∀ m, m < N → Sims cfg env m (condProg cond) pcond)
    (body : List Structure) (pbody : List PyStmt) (hb : ∀ m, m < N → Sims cfg env m body pbody) :
    ∀ (n : Nat), n ≤ N → ∀ (x : Val) (σ : RSt) (π : PSt) (sg : Sig) (σ' : RSt), Rel env A σ π → π.getVar ("condition", []) = some x →
      whileLoop cfg n cond body x σ = .ok (sg, σ') →
      ∃ π', whilePy cfg n boolifyCond
          ([ctxCall "context_values" "append" [nm "condition"]] ++ pbody ++ [ctxCall "context_values" "pop" []] ++ pcond ++ [condPop]) π =
          .ok (sigP sg, π') ∧ Post env A sg σ' π'
  | 0, _, x, σ, π, sg, σ', h, hx, hr => by
      simp only [whileLoop] at hr
      by_cases ht : truthy x
      · simp [ht] at hr
      · simp [ht] at hr; obtain ⟨h1, h2⟩ := hr; subst h1; subst h2
        exact ⟨π, by simp [whilePy, eval_boolifyCond cfg 0 π x hx, ht, sigP], h⟩
  | n + 1, hn, x, σ, π, sg, σ', h, hx, hr => by
      simp only [whileLoop] at hr
      simp only [whilePy, eval_boolifyCond cfg n π x hx, R_ok_bind, pyTruth_b2i]
      by_cases ht : truthy x
      · simp only [ht, Bool.not_true, Bool.false_eq_true, ↓reduceIte] at hr ⊢
        cases hbd : execL cfg n body { σ with ctxVals := x :: σ.ctxVals } with
        | error e => simp [hbd] at hr
        | ok r1 =>
          obtain ⟨sg1, σ1⟩ := r1
          simp only [hbd, R_ok_bind] at hr
          cases hd : σ1.dropCtx with
          | error e => simp [hd] at hr
          | ok σ2 =>
            simp only [hd, R_ok_bind] at hr
            cases sg1 with
            | normal =>
              obtain ⟨π2, he2, hR2⟩ := sim_loopBody cfg n body pbody (hb n (by omega)) (nm "condition") x h
                (eval_nm_condition cfg n π x hx) _ σ1 σ2 hbd hd (by intro v; simp)
              rw [List.append_assoc, execPL_append, he2]
              simp only [sigP]
              cases hcd : execL cfg n (condProg cond) σ2 with
              | error e => simp [hcd] at hr
              | ok r3 =>
                obtain ⟨sg3, σ3⟩ := r3
                simp only [hcd, R_ok_bind] at hr
                obtain ⟨π3, he3, hP3⟩ := hc n (by omega) _ _ _ _ _ hR2 hcd
                rw [execPL_append, he3]
                cases sg3 with
                | normal =>
                  simp only [sigP] at hr ⊢
                  have hR3 : Rel env A σ3 π3 := hP3
                  obtain ⟨hcp, hR4⟩ := exec_condPop cfg n hR3
                  simp only [execPL_cons, hcp, execPL]
                  have := sim_while cfg N cond pcond hc body pbody hb n (by omega) σ3.pop1.1 σ3.pop1.2 _ sg σ' hR4 (getVar_setVar_eq _ _ _) hr
                  simpa [List.append_assoc, sigP] using this
                | brk => simp at hr
                | cont => simp at hr
                | ret v => simp at hr
            | cont => simp at hr
            | brk =>
              obtain ⟨π2, he2, hR2⟩ := sim_loopBody cfg n body pbody (hb n (by omega)) (nm "condition") x h
                (eval_nm_condition cfg n π x hx) _ σ1 σ2 hbd hd (by intro v; simp)
              rw [List.append_assoc, execPL_append, he2]
              simp at hr; obtain ⟨h1, h2⟩ := hr; subst h1; subst h2
              exact ⟨π2, by simp [sigP], hR2⟩
            | ret v => simp at hr
      · simp only [ht, Bool.not_false, ↓reduceIte] at hr ⊢
        simp at hr; obtain ⟨h1, h2⟩ := hr; subst h1; subst h2
        exact ⟨π, by simp [sigP], h⟩

/-- printing keeps the relation -/
theorem Rel.print {σ : RSt} {π : PSt} (h : Rel env A σ π) (s : String) : Rel env A (σ.print s) (π.print s) :=
  ⟨h.depth, h.params0, h.stack, h.ctxVals, h.inputs, h.register, h.ghost, by simp [RSt.print, PSt.print, h.out],
   by simp [RSt.print, PSt.print], h.retain, h.useTop, h.stacks, h.fnStack, h.gvars, h.lvars, h.clean, h.fnsLen, h.lams, h.argVar, h.gArg, h.funcs⟩

theorem Rel.setRegister {σ : RSt} {π : PSt} (h : Rel env A σ π) (v : Val) : Rel env A { σ with register := v } { π with register := v } :=
  ⟨h.depth, h.params0, h.stack, h.ctxVals, h.inputs, rfl, h.ghost, h.out, h.printed, h.retain, h.useTop, h.stacks, h.fnStack,
   h.gvars, h.lvars, h.clean, h.fnsLen, h.lams, h.argVar, h.gArg, h.funcs⟩

end Vy.Sem
