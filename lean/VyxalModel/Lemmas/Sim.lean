import VyxalModel.Lemmas.PyBasic
/-!
# The simulation relation between the reference state and the Python state, and one lemma per template

`Rel σ π`: the Python variable `stack` holds the reference stack (in Python order), the four `ctx` lists, the
register, the ghost variable and the output agree, `retain_popped` / `use_top_input` are off, every program
variable `x` is the Python variable `VAR_x`, and no other Python variable shadows a library name.
(Module level — `depth = 0` — in this file; function frames are added by the closure stage.)
-/
namespace Vy.Sem
open Vy PyAst

/-- Python names that the templates bind besides `stack` and the `VAR_…` / `_lambda_…` families -/
def junkNames : List String :=
  ["condition", "lhs", "rhs", "third", "top", "temp", "_", "arguments", "arguments_A", "arguments_B", "stack_copy",
   "function_A", "function_B", "function_C", "res", "res_A", "res_B", "ret", "this", "parameters", "temp_list", "f",
   "list_item", "arg_stack", "self", "arity", "s"]

structure Rel (σ : RSt) (π : PSt) : Prop where
  d0 : σ.depth = 0
  pd0 : π.depth = 0
  stack : lookupP ("stack", []) π.globals = some (.list σ.stack.reverse)
  ctxVals : π.ctxVals = σ.ctxVals
  inputs : π.inputs = σ.inputs
  register : π.register = σ.register
  ghost : π.ghost = σ.ghost
  out : π.out = σ.out
  printed : π.printed = σ.printed
  retain : π.retain = false
  useTop : π.useTop = false
  vars : ∀ x : Str, x ≠ [] → isLoopName x = false → lookupP ("VAR_", x) π.globals = lookupKV x σ.globals
  clean : ∀ h : String, h ∉ junkNames → h ≠ "stack" → lookupP (h, []) π.globals = Option.none

/-- signals correspond one to one -/
def sigP : Sig → PSig
  | .normal => .normal | .brk => .brk | .cont => .cont | .ret v => .ret (.list [v])

/-- the relation after a statement list: a `break` / `continue` template has already popped the loop's context value
    on the Python side, the reference loop pops it when the body hands the signal back -/
def Post (sg : Sig) (σ : RSt) (π : PSt) : Prop :=
  match sg with
  | .normal => Rel σ π
  | .brk | .cont => Rel { σ with ctxVals := σ.ctxVals.tail } π
  | .ret _ => False

/-! ### updates that keep the relation -/

theorem Rel.setJunk {σ : RSt} {π : PSt} (h : Rel σ π) (name : String) (v : Val) (hj : name ∈ junkNames) :
    Rel σ (π.setVar (name, []) v) := by
  have hne : (name, ([] : List Nat)) ≠ ("stack", []) := by
    intro he; have : name = "stack" := by injection he
    subst this; revert hj; decide
  refine ⟨h.d0, by simp [h.pd0], ?_, by simp [h.ctxVals], by simp [h.inputs], by simp [h.register], by simp [h.ghost],
    by simp [h.out], by simp [h.printed], by simp [h.retain], by simp [h.useTop], ?_, ?_⟩
  · rw [setVar_d0 _ _ _ h.pd0]; simp only
    rw [lookupP_setP_ne _ _ _ _ (Ne.symm hne)]; exact h.stack
  · intro x hx hl
    rw [setVar_d0 _ _ _ h.pd0]; simp only
    rw [lookupP_setP_ne]; exact h.vars x hx hl
    intro he; injection he with h1 h2; exact hx h2
  · intro hn hnj hns
    rw [setVar_d0 _ _ _ h.pd0]; simp only
    rw [lookupP_setP_ne]; exact h.clean hn hnj hns
    intro he; injection he with h1 h2; subst h1; exact hnj hj

/-- the Python state after `stack` is rebound -/
theorem Rel.setStack {σ : RSt} {π : PSt} (h : Rel σ π) (st : List Val) :
    Rel { σ with stack := st } (π.setVar ("stack", []) (.list st.reverse)) := by
  refine ⟨h.d0, by simp [h.pd0], ?_, by simp [h.ctxVals], by simp [h.inputs], by simp [h.register], by simp [h.ghost],
    by simp [h.out], by simp [h.printed], by simp [h.retain], by simp [h.useTop], ?_, ?_⟩
  · rw [setVar_d0 _ _ _ h.pd0]; simp only; rw [lookupP_setP_eq]
  · intro x hx hl
    rw [setVar_d0 _ _ _ h.pd0]; simp only
    rw [lookupP_setP_ne]; exact h.vars x hx hl
    intro he; injection he with h1 h2; exact absurd h1 (by decide)
  · intro hn hnj hns
    rw [setVar_d0 _ _ _ h.pd0]; simp only
    rw [lookupP_setP_ne]; exact h.clean hn hnj hns
    intro he; injection he with h1 h2; exact hns h1

theorem Rel.getStack {σ : RSt} {π : PSt} (h : Rel σ π) : π.getVar ("stack", []) = some (.list σ.stack.reverse) := by
  rw [getVar_d0 _ _ h.pd0]; exact h.stack

end Vy.Sem

namespace Vy.Sem
open Vy PyAst

theorem Rel.setInputs {σ : RSt} {π : PSt} (h : Rel σ π) (ins : List (List Val × Nat)) :
    Rel { σ with inputs := ins } { π with inputs := ins } :=
  ⟨h.d0, h.pd0, h.stack, h.ctxVals, rfl, h.register, h.ghost, h.out, h.printed, h.retain, h.useTop, h.vars, h.clean⟩


@[simp] theorem specialOf_pop : specialOf "pop" = some .pop := by decide
@[simp] theorem specialOf_wrapify : specialOf "wrapify" = some .wrapify := by decide
@[simp] theorem specialOf_len : specialOf "len" = some .len := by decide
@[simp] theorem specialOf_list : specialOf "list" = some .list_ := by decide
@[simp] theorem specialOf_deep_copy : specialOf "deep_copy" = some .deep_copy := by decide
@[simp] theorem specialOf_iterable : specialOf "iterable" = some .iterable := by decide
@[simp] theorem specialOf_boolify : specialOf "boolify" = some .boolify := by decide
@[simp] theorem specialOf_get_input : specialOf "get_input" = some .get_input := by decide
@[simp] theorem specialOf_vy_print : specialOf "vy_print" = some .vy_print := by decide

/-! ### `pop(stack, k, ctx)` -/

/-- the Python state after `pop(stack, k, ctx)` -/
def popPi (σ : RSt) (π : PSt) (k : Nat) : PSt :=
  ({ π with inputs := (popN k σ.stack σ.inputs).2.2 }).setVar ("stack", []) (.list (popN k σ.stack σ.inputs).2.1.reverse)

theorem rel_popPi {σ : RSt} {π : PSt} (h : Rel σ π) (k : Nat) : Rel (σ.popK k).2 (popPi σ π k) := by
  have h1 := (h.setInputs (popN k σ.stack σ.inputs).2.2).setStack (popN k σ.stack σ.inputs).2.1
  simpa [RSt.popK, popPi] using h1

/-- what `pop` returns: the value itself for a count of 1, else the list of popped values -/
def popVal (k : Nat) (p : List Val) : Val :=
  match k, p with
  | 1, [v] => v
  | _, p => .list p

theorem eval_pop_nat {σ : RSt} {π : PSt} (cfg : Cfg) (n : Nat) (h : Rel σ π) (k : Nat)
    (rest : List PyExpr) (kw : List (String × PyExpr)) :
    evalE cfg n (.call (.name "pop") (.name "stack" :: .cint (k : Int) :: rest) kw) π =
        .ok (popVal k (σ.popK k).1, popPi σ π k) := by
  simp only [evalE, specialOf_pop, evalSpecial, asNat, R_ok_bind]
  simp [h.getStack, popPy_rev, h.retain, h.inputs, RSt.popK, popPi, popVal]
  have hk : ¬ ((k : Int) < 0) := by omega
  simp only [hk, ↓reduceIte, R_ok_bind]
  split <;> simp_all

theorem eval_pop {σ : RSt} {π : PSt} (cfg : Cfg) (n : Nat) (h : Rel σ π) (i : Int) (k : Nat) (hik : i = (k : Int))
    (rest : List PyExpr) (kw : List (String × PyExpr)) :
    evalE cfg n (.call (.name "pop") (.name "stack" :: .cint i :: rest) kw) π =
        .ok (popVal k (σ.popK k).1, popPi σ π k) := by
  rw [hik]; exact eval_pop_nat cfg n h k rest kw

theorem popK_one (σ : RSt) : (σ.popK 1).1 = [σ.pop1.1] ∧ (σ.popK 1).2 = σ.pop1.2 := by
  have hl := popN_length 1 σ.stack σ.inputs
  simp only [RSt.popK, RSt.pop1]
  match hp : popN 1 σ.stack σ.inputs with
  | (x :: rest, st, ins) =>
    rw [hp] at hl; simp at hl; subst hl; simp
  | ([], st, ins) => rw [hp] at hl; simp at hl

theorem eval_pop1kw {σ : RSt} {π : PSt} (cfg : Cfg) (n : Nat) (h : Rel σ π) :
    evalE cfg n pop1kw π = .ok (σ.pop1.1, popPi σ π 1) := by
  have := eval_pop cfg n h 1 1 rfl [] kwCtx
  simp only [pop1kw, stackE]
  rw [this, (popK_one σ).1]; rfl

theorem eval_pop1pos {σ : RSt} {π : PSt} (cfg : Cfg) (n : Nat) (h : Rel σ π) :
    evalE cfg n pop1pos π = .ok (σ.pop1.1, popPi σ π 1) := by
  have := eval_pop cfg n h 1 1 rfl [ctxE] []
  simp only [pop1pos, stackE]
  rw [this, (popK_one σ).1]; rfl

theorem rel_pop1 {σ : RSt} {π : PSt} (h : Rel σ π) : Rel σ.pop1.2 (popPi σ π 1) := by
  have := rel_popPi h 1
  rwa [(popK_one σ).2] at this

/-! ### `stack.append(e)` and assignments to template-local names -/

theorem exec_push {σ1 : RSt} {π π1 : PSt} (cfg : Cfg) (n : Nat) (e : PyExpr) (v : Val)
    (he : evalE cfg n e π = .ok (v, π1)) (h1 : Rel σ1 π1) :
    execPS cfg n (push e) π = .ok (.normal, π1.setVar ("stack", []) (.list ((v :: σ1.stack).reverse))) ∧
    Rel (σ1.push v) (π1.setVar ("stack", []) (.list ((v :: σ1.stack).reverse))) := by
  constructor
  · simp [push, stackE, execPS, he, h1.getStack]
  · exact h1.setStack (v :: σ1.stack)

theorem exec_assign_name (cfg : Cfg) (n : Nat) (x : String) (e : PyExpr) (v : Val) (π π1 : PSt)
    (he : evalE cfg n e π = .ok (v, π1)) :
    execPS cfg n (.assign [.name x] e) π = .ok (.normal, π1.setVar (x, []) v) := by
  simp [execPS, he, assignTo]

/-! ### the `process_element` boilerplate -/

def popStackE (k : Int) : PyExpr := .call (.name "pop") [.name "stack", .cint k, .name "ctx"] []
def appendCall (f : String) (args : List PyExpr) : PyStmt :=
  .expr (.call (.attr (.name "stack") "append") [.call (.name f) args [("ctx", .name "ctx")]] [])

theorem evalE_name (cfg : Cfg) (n : Nat) (x : String) (π : PSt) (v : Val) (h : π.getVar (x, []) = some v) :
    evalE cfg n (.name x) π = .ok (v, π) := by
  simp [evalE, h]

theorem Rel.clean' {σ : RSt} {π : PSt} (h : Rel σ π) (f : String) (hj : f ∉ junkNames) (hs : f ≠ "stack") :
    π.getVar (f, []) = Option.none := by
  rw [getVar_d0 _ _ h.pd0]; exact h.clean f hj hs

/-- calling an element function by name -/
theorem eval_elemCall {σ : RSt} {π : PSt} (cfg : Cfg) (n : Nat) (h : Rel σ π) (f : String) (args : List PyExpr) (vs : List Val)
    (r : Val) (hsp : specialOf f = Option.none) (hj : f ∉ junkNames) (hs : f ≠ "stack")
    (hargs : evalArgs cfg n args π = .ok (vs, π)) (hnf : ∀ x ∈ vs, isFnVal x = false) (hr : elemFn f vs = .ok r) :
    evalE cfg n (.call (.name f) args [("ctx", .name "ctx")]) π = .ok (r, π) := by
  simp [evalE, hsp, callVar, h.clean' f hj hs, hargs, hr]
  exact hnf

def boilerplate : Nat → String → List PyStmt
  | 0, f => [.assign [.name "_"] (popStackE 0), appendCall f []]
  | 1, f => [.assign [.name "lhs"] (popStackE 1), appendCall f [.name "lhs"]]
  | 2, f => [.assign [.tuple [.name "rhs", .name "lhs"]] (popStackE 2), appendCall f [.name "lhs", .name "rhs"]]
  | _, f => [.assign [.tuple [.name "third", .name "rhs", .name "lhs"]] (popStackE 3), appendCall f [.name "lhs", .name "rhs", .name "third"]]

theorem popK_len (σ : RSt) (k : Nat) : (σ.popK k).1.length = k := by
  simp [RSt.popK, popN_length]

theorem exec_appendCall {σ : RSt} {π : PSt} (cfg : Cfg) (n : Nat) (h : Rel σ π) (f : String) (args : List PyExpr) (vs : List Val)
    (r : Val) (hsp : specialOf f = Option.none) (hj : f ∉ junkNames) (hs : f ≠ "stack")
    (hargs : evalArgs cfg n args π = .ok (vs, π)) (hnf : ∀ x ∈ vs, isFnVal x = false) (hr : elemFn f vs = .ok r) :
    ∃ π', execPS cfg n (appendCall f args) π = .ok (.normal, π') ∧ Rel (σ.push r) π' := by
  have hc := eval_elemCall cfg n h f args vs r hsp hj hs hargs hnf hr
  obtain ⟨he, hR⟩ := exec_push cfg n _ r hc h
  exact ⟨_, he, hR⟩

theorem exec_assign_tuple2 (cfg : Cfg) (n : Nat) (x y : String) (e : PyExpr) (a b : Val) (π π1 : PSt)
    (he : evalE cfg n e π = .ok (.list [a, b], π1)) :
    execPS cfg n (.assign [.tuple [.name x, .name y]] e) π = .ok (.normal, (π1.setVar (x, []) a).setVar (y, []) b) := by
  simp [execPS, he, assignTo, List.foldlM]

theorem exec_assign_tuple3 (cfg : Cfg) (n : Nat) (x y z : String) (e : PyExpr) (a b c : Val) (π π1 : PSt)
    (he : evalE cfg n e π = .ok (.list [a, b, c], π1)) :
    execPS cfg n (.assign [.tuple [.name x, .name y, .name z]] e) π =
      .ok (.normal, ((π1.setVar (x, []) a).setVar (y, []) b).setVar (z, []) c) := by
  simp [execPS, he, assignTo, List.foldlM]

theorem exec_boilerplate {σ : RSt} {π : PSt} (cfg : Cfg) (n : Nat) (h : Rel σ π) (k : Nat) (hk : k ≤ 3) (f : String)
    (r : Val) (hsp : specialOf f = Option.none) (hj : f ∉ junkNames) (hs : f ≠ "stack")
    (hnf : ∀ x ∈ (σ.popK k).1, isFnVal x = false) (hr : elemFn f (σ.popK k).1.reverse = .ok r) :
    ∃ π', execPL cfg n (boilerplate k f) π = .ok (.normal, π') ∧ Rel ((σ.popK k).2.push r) π' := by
  have hl := popK_len σ k
  have hrel := rel_popPi h k
  match k, hk with
  | 0, _ =>
    have hp : (σ.popK 0).1 = [] := by simpa using hl
    rw [hp] at hr
    simp only [boilerplate, execPL_cons, popStackE]
    rw [exec_assign_name cfg n "_" _ _ π _ (eval_pop cfg n h 0 0 rfl [.name "ctx"] [])]
    simp only
    have hrel' := hrel.setJunk "_" (popVal 0 (σ.popK 0).1) (by decide)
    obtain ⟨π', he, hR⟩ := exec_appendCall cfg n hrel' f [] [] r hsp hj hs (by simp [evalArgs]) (by simp) (by simpa using hr)
    exact ⟨π', by rw [he]; simp [execPL], hR⟩
  | 1, _ =>
    obtain ⟨a, hp⟩ : ∃ a, (σ.popK 1).1 = [a] := by
      match hq : (σ.popK 1).1, hl with
      | [a], _ => exact ⟨a, rfl⟩
    rw [hp] at hr hnf
    simp only [boilerplate, execPL_cons, popStackE]
    rw [exec_assign_name cfg n "lhs" _ _ π _ (eval_pop cfg n h 1 1 rfl [.name "ctx"] [])]
    simp only
    have hrel' := hrel.setJunk "lhs" (popVal 1 (σ.popK 1).1) (by decide)
    have hargs : evalArgs cfg n [.name "lhs"] ((popPi σ π 1).setVar ("lhs", []) (popVal 1 (σ.popK 1).1)) =
        .ok ([a], (popPi σ π 1).setVar ("lhs", []) (popVal 1 (σ.popK 1).1)) := by
      simp [evalArgs, isCtxName, evalE_name _ _ "lhs" _ _ (getVar_setVar_eq _ _ _), hp, popVal]
    obtain ⟨π', he, hR⟩ := exec_appendCall cfg n hrel' f _ _ r hsp hj hs hargs (by simpa using hnf) (by simpa using hr)
    exact ⟨π', by rw [he]; simp [execPL], hR⟩
  | 2, _ =>
    obtain ⟨a, b, hp⟩ : ∃ a b, (σ.popK 2).1 = [a, b] := by
      match hq : (σ.popK 2).1, hl with
      | [a, b], _ => exact ⟨a, b, rfl⟩
    rw [hp] at hr hnf
    simp only [boilerplate, execPL_cons, popStackE]
    have hpop := eval_pop cfg n h 2 2 rfl [.name "ctx"] []
    rw [hp, show popVal 2 [a, b] = .list [a, b] from rfl] at hpop
    rw [exec_assign_tuple2 cfg n "rhs" "lhs" _ a b π _ hpop]
    simp only
    have hrel' := (hrel.setJunk "rhs" a (by decide)).setJunk "lhs" b (by decide)
    have hargs : evalArgs cfg n [.name "lhs", .name "rhs"] (((popPi σ π 2).setVar ("rhs", []) a).setVar ("lhs", []) b) =
        .ok ([b, a], ((popPi σ π 2).setVar ("rhs", []) a).setVar ("lhs", []) b) := by
      have h1 : (((popPi σ π 2).setVar ("rhs", []) a).setVar ("lhs", []) b).getVar ("lhs", []) = some b := getVar_setVar_eq _ _ _
      have h2 : (((popPi σ π 2).setVar ("rhs", []) a).setVar ("lhs", []) b).getVar ("rhs", []) = some a := by
        rw [getVar_setVar_ne _ _ _ _ (by decide)]; exact getVar_setVar_eq _ _ _
      simp [evalArgs, isCtxName, evalE_name _ _ _ _ _ h1, evalE_name _ _ _ _ _ h2]
    obtain ⟨π', he, hR⟩ := exec_appendCall cfg n hrel' f _ _ r hsp hj hs hargs (by simpa [and_comm] using hnf) (by simpa using hr)
    exact ⟨π', by rw [he]; simp [execPL], hR⟩
  | 3, _ =>
    obtain ⟨a, b, c, hp⟩ : ∃ a b c, (σ.popK 3).1 = [a, b, c] := by
      match hq : (σ.popK 3).1, hl with
      | [a, b, c], _ => exact ⟨a, b, c, rfl⟩
    rw [hp] at hr hnf
    simp only [boilerplate, execPL_cons, popStackE]
    have hpop := eval_pop cfg n h 3 3 rfl [.name "ctx"] []
    rw [hp, show popVal 3 [a, b, c] = .list [a, b, c] from rfl] at hpop
    rw [exec_assign_tuple3 cfg n "third" "rhs" "lhs" _ a b c π _ hpop]
    simp only
    have hrel' := ((hrel.setJunk "third" a (by decide)).setJunk "rhs" b (by decide)).setJunk "lhs" c (by decide)
    have hargs : evalArgs cfg n [.name "lhs", .name "rhs", .name "third"]
          ((((popPi σ π 3).setVar ("third", []) a).setVar ("rhs", []) b).setVar ("lhs", []) c) =
        .ok ([c, b, a], (((popPi σ π 3).setVar ("third", []) a).setVar ("rhs", []) b).setVar ("lhs", []) c) := by
      have h1 : ((((popPi σ π 3).setVar ("third", []) a).setVar ("rhs", []) b).setVar ("lhs", []) c).getVar ("lhs", []) = some c :=
        getVar_setVar_eq _ _ _
      have h2 : ((((popPi σ π 3).setVar ("third", []) a).setVar ("rhs", []) b).setVar ("lhs", []) c).getVar ("rhs", []) = some b := by
        rw [getVar_setVar_ne _ _ _ _ (by decide)]; exact getVar_setVar_eq _ _ _
      have h3 : ((((popPi σ π 3).setVar ("third", []) a).setVar ("rhs", []) b).setVar ("lhs", []) c).getVar ("third", []) = some a := by
        rw [getVar_setVar_ne _ _ _ _ (by decide), getVar_setVar_ne _ _ _ _ (by decide)]; exact getVar_setVar_eq _ _ _
      simp [evalArgs, isCtxName, evalE_name _ _ _ _ _ h1, evalE_name _ _ _ _ _ h2, evalE_name _ _ _ _ _ h3]
    obtain ⟨π', he, hR⟩ := exec_appendCall cfg n hrel' f _ _ r hsp hj hs hargs
      (by intro x hx; simp at hx; apply hnf; simp; rcases hx with h | h | h <;> simp [h]) (by simpa using hr)
    exact ⟨π', by rw [he]; simp [execPL], hR⟩


def isBoilerplate : List PyStmt → Option (Nat × String)
  | [.assign [.name "_"] (.call (.name "pop") [.name "stack", .cint 0, .name "ctx"] []),
     .expr (.call (.attr (.name "stack") "append") [.call (.name f) [] [("ctx", .name "ctx")]] [])] => some (0, f)
  | [.assign [.name "lhs"] (.call (.name "pop") [.name "stack", .cint 1, .name "ctx"] []),
     .expr (.call (.attr (.name "stack") "append") [.call (.name f) [.name "lhs"] [("ctx", .name "ctx")]] [])] => some (1, f)
  | [.assign [.tuple [.name "rhs", .name "lhs"]] (.call (.name "pop") [.name "stack", .cint 2, .name "ctx"] []),
     .expr (.call (.attr (.name "stack") "append") [.call (.name f) [.name "lhs", .name "rhs"] [("ctx", .name "ctx")]] [])] => some (2, f)
  | [.assign [.tuple [.name "third", .name "rhs", .name "lhs"]] (.call (.name "pop") [.name "stack", .cint 3, .name "ctx"] []),
     .expr (.call (.attr (.name "stack") "append") [.call (.name f) [.name "lhs", .name "rhs", .name "third"] [("ctx", .name "ctx")]] [])] => some (3, f)
  | _ => none

theorem isBoilerplate_sound (b : List PyStmt) (k : Nat) (f : String) (h : isBoilerplate b = some (k, f)) :
    b = boilerplate k f := by
  unfold isBoilerplate at h
  split at h <;> simp at h <;> obtain ⟨h1, h2⟩ := h <;> subst h1 <;> subst h2 <;> rfl


end Vy.Sem
