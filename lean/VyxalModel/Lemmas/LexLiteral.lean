import VyxalModel.Lemmas.Lexer
/-! Lexer half of C03 / C04 / C06: a rendered literal is read back as exactly one token (or none, for a
    comment), whatever follows it. -/
open Vy

theorem scanString_nil (d : Nat) (e : Bool) (acc : List Nat) : scanString d e [] acc = (acc.reverse, []) := by
  rw [scanString.eq_def]

theorem scanString_cons (d : Nat) (e : Bool) (c : Nat) (cs acc : List Nat) :
    scanString d e (c :: cs) acc =
      if c = d then (acc.reverse, cs)
      else if e && c = 92 then
        (match cs with
         | [] => (acc.reverse, [])
         | x :: ds => scanString d e ds (x :: 92 :: acc))
      else scanString d e cs (c :: acc) := by
  rw [scanString.eq_def]; simp only []; rfl

/-- scanning a delimiter-free payload stops at the delimiter (no escapes: `»…»`, `«…«`) -/
theorem scanString_plain (d : Nat) (p rest acc : List Nat) (hp : ∀ c ∈ p, c ≠ d) :
    scanString d false (p ++ d :: rest) acc = (acc.reverse ++ p, rest) := by
  induction p generalizing acc with
  | nil => simp [scanString_cons, scanString_nil]
  | cons c cs ih =>
    have hc : c ≠ d := hp c (by simp)
    rw [List.cons_append, scanString_cons]
    simp only [hc, if_false, Bool.false_and, Bool.false_eq_true]
    rw [ih _ (fun x hx => hp x (by simp [hx]))]
    simp

/-- scanning a delimiter-free payload that reaches the end of input -/
theorem scanString_plain_eof (d : Nat) (p acc : List Nat) (hp : ∀ c ∈ p, c ≠ d) :
    scanString d false p acc = (acc.reverse ++ p, []) := by
  induction p generalizing acc with
  | nil => simp [scanString_cons, scanString_nil]
  | cons c cs ih =>
    have hc : c ≠ d := hp c (by simp)
    rw [scanString_cons]
    simp only [hc, if_false, Bool.false_and, Bool.false_eq_true]
    rw [ih _ (fun x hx => hp x (by simp [hx]))]
    simp

/-- a back-quoted payload is well formed when every back-quote and backslash in it is escaped -/
def bqValid : List Nat → Bool
  | [] => true
  | [92] => false
  | 92 :: _ :: r => bqValid r
  | c :: r => c != 96 && bqValid r

theorem scanString_bq (p rest acc : List Nat) (hp : bqValid p = true) :
    scanString 96 true (p ++ 96 :: rest) acc = (acc.reverse ++ p, rest) := by
  fun_induction bqValid p generalizing acc with
  | case1 => simp [scanString_cons, scanString_nil]
  | case2 => simp at hp
  | case3 d r ih =>
    simp only [List.cons_append]
    rw [scanString_cons]
    simp only [show (92 : Nat) ≠ 96 by decide, if_false, Bool.true_and, decide_true, if_true]
    rw [ih _ hp]
    simp
  | case4 c r h1 h2 ih =>
    simp only [Bool.and_eq_true, bne_iff_ne, ne_eq] at hp
    have hc96 : c ≠ 96 := hp.1
    have hc92 : c ≠ 92 := by
      intro h; subst h
      cases r with
      | nil => exact h1 rfl rfl
      | cons d r' => exact h2 d r' rfl rfl
    simp only [List.cons_append]
    rw [scanString_cons]
    simp only [hc96, if_false, hc92, decide_false, Bool.and_false, Bool.false_eq_true]
    rw [ih _ hp.2]
    simp

theorem skipComment_line (p rest : List Nat) (hp : ∀ c ∈ p, c ≠ 10) : skipComment (p ++ 10 :: rest) = rest := by
  induction p with
  | nil => simp [skipComment]
  | cons c cs ih =>
    have hc : c ≠ 10 := hp c (by simp)
    simp only [List.cons_append, skipComment, hc, if_false]
    exact ih (fun x hx => hp x (by simp [hx]))

/-- `\c` : one CHARACTER token, whatever `c` is -/
theorem lex_escaped_char (c : Nat) (rest : List Nat) :
    tokenise (92 :: c :: rest) = ⟨.character, [c]⟩ :: tokenise rest := by
  rw [tokenise_step]; simp [lexStep, lexKind]

/-- `‛ab` : one STRING token, whatever `a`, `b` are -/
theorem lex_two_char (a b : Nat) (rest : List Nat) :
    tokenise (8219 :: a :: b :: rest) = ⟨.string, [a, b]⟩ :: tokenise rest := by
  rw [tokenise_step]; simp [lexStep, lexKind, isNumCh, isDig, cDot, cDeg]

/-- `⁺c` : one CODEPAGE_NUMBER token -/
theorem lex_codepage_number (c : Nat) (rest : List Nat) :
    tokenise (8314 :: c :: rest) = ⟨.cpnum, [c]⟩ :: tokenise rest := by
  rw [tokenise_step]; simp [lexStep, lexKind, isNumCh, isDig, cDot, cDeg, isDigraphPrefix]

/-- `»p»` : one COMPRESSED_NUMBER token carrying `p`, for every payload without `»` -/
theorem lex_compressed_number (p rest : List Nat) (hp : ∀ c ∈ p, c ≠ 187) :
    tokenise (187 :: p ++ 187 :: rest) = ⟨.cnum, p⟩ :: tokenise rest := by
  rw [tokenise_step]
  simp only [List.cons_append, lexStep, lexKind, show (187 : Nat) ≠ 92 by decide, show (187 : Nat) ≠ 96 by decide, if_false,
    if_true]
  rw [scanString_plain 187 p rest [] hp]; simp

/-- `«p«` : one COMPRESSED_STRING token carrying `p`, for every payload without `«` -/
theorem lex_compressed_string (p rest : List Nat) (hp : ∀ c ∈ p, c ≠ 171) :
    tokenise (171 :: p ++ 171 :: rest) = ⟨.cstr, p⟩ :: tokenise rest := by
  rw [tokenise_step]
  simp only [List.cons_append, lexStep, lexKind, show (171 : Nat) ≠ 92 by decide, show (171 : Nat) ≠ 96 by decide,
    show (171 : Nat) ≠ 187 by decide, if_false, if_true]
  rw [scanString_plain 171 p rest [] hp]; simp

/-- `` `p` `` : one STRING token carrying `p`, for every payload whose back-quotes and backslashes are escaped -/
theorem lex_backquote (p rest : List Nat) (hp : bqValid p = true) :
    tokenise (96 :: p ++ 96 :: rest) = ⟨.string, p⟩ :: tokenise rest := by
  rw [tokenise_step]
  simp only [List.cons_append, lexStep, lexKind, show (96 : Nat) ≠ 92 by decide, if_false, if_true]
  rw [scanString_bq p rest [] hp]; simp

/-- `#p⏎` : no token at all -/
theorem lex_comment (p rest : List Nat) (hp : ∀ c ∈ p, c ≠ 10) :
    tokenise (35 :: p ++ 10 :: rest) = tokenise rest := by
  rw [tokenise_step]
  simp only [List.cons_append, lexStep, lexKind, isNumCh, isDig, cDot, cDeg]
  simp [skipComment_line p rest hp]

/-- a plain character (none of the lexer's special heads) is its own GENERAL token -/
theorem lex_general (c : Nat) (rest : List Nat) (h : lexKind c = .gen) :
    tokenise (c :: rest) = ⟨.general, [c]⟩ :: tokenise rest := by
  rw [tokenise_step]; simp [lexStep, h]

/-- a digraph `kX`, `∆X`, `øX`, `ÞX`, `¨X` (second character not `|`) is one GENERAL token -/
theorem lex_digraph (c d : Nat) (rest : List Nat) (h : lexKind c = .digraph) (hd : d ≠ 124) :
    tokenise (c :: d :: rest) = ⟨.general, [c, d]⟩ :: tokenise rest := by
  rw [tokenise_step]; simp [lexStep, h, hd]

/-! ### closing string delimiters may be omitted at the end of the program (C04, lexer half) -/

theorem lex_backquote_eof_aux (p acc : List Nat) (hp : bqValid p = true) :
    scanString 96 true p acc = (acc.reverse ++ p, []) := by
  fun_induction bqValid p generalizing acc with
  | case1 => simp [scanString_cons, scanString_nil]
  | case2 => simp at hp
  | case3 d r ih =>
    rw [scanString_cons]
    simp only [show (92 : Nat) ≠ 96 by decide, if_false, Bool.true_and, decide_true, if_true]
    rw [ih _ hp]; simp
  | case4 c r h1 h2 ih =>
    simp only [Bool.and_eq_true, bne_iff_ne, ne_eq] at hp
    have hc96 : c ≠ 96 := hp.1
    have hc92 : c ≠ 92 := by
      intro h; subst h
      cases r with
      | nil => exact h1 rfl rfl
      | cons d r' => exact h2 d r' rfl rfl
    rw [scanString_cons]
    simp only [hc96, if_false, hc92, decide_false, Bool.and_false, Bool.false_eq_true]
    rw [ih _ hp.2]; simp

/-- an unterminated back-quoted string at the end of the program lexes like the terminated one -/
theorem lex_backquote_unclosed (p : List Nat) (hp : bqValid p = true) :
    tokenise (96 :: p) = tokenise (96 :: p ++ [96]) := by
  rw [lex_backquote p [] hp, tokenise_step]
  simp only [lexStep, lexKind, show (96 : Nat) ≠ 92 by decide, if_false, if_true]
  rw [lex_backquote_eof_aux p [] hp]; simp [tokenise_nil]

theorem lex_compressed_number_unclosed (p : List Nat) (hp : ∀ c ∈ p, c ≠ 187) :
    tokenise (187 :: p) = tokenise (187 :: p ++ [187]) := by
  rw [lex_compressed_number p [] hp, tokenise_step]
  simp only [lexStep, lexKind, show (187 : Nat) ≠ 92 by decide, show (187 : Nat) ≠ 96 by decide, if_false, if_true]
  rw [scanString_plain_eof 187 p [] hp]; simp [tokenise_nil]

theorem lex_compressed_string_unclosed (p : List Nat) (hp : ∀ c ∈ p, c ≠ 171) :
    tokenise (171 :: p) = tokenise (171 :: p ++ [171]) := by
  rw [lex_compressed_string p [] hp, tokenise_step]
  simp only [lexStep, lexKind, show (171 : Nat) ≠ 92 by decide, show (171 : Nat) ≠ 96 by decide,
    show (171 : Nat) ≠ 187 by decide, if_false, if_true]
  rw [scanString_plain_eof 171 p [] hp]; simp [tokenise_nil]
