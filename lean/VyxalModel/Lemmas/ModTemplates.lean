import VyxalModel.Lemmas.PyBasic
/-!
# The modifier templates

`tmplM<c>` is the template the `modifiers` table is *expected* to hold for the modifier with code point `c` (written
down from the table as it was when the proofs were made); `isTmplM<c>` recognises it; `ModsOK` checks a whole table.
A changed template makes `ModsOK Gen.modifiers` false: the obligation breaks and the check searches for a program
on which the modifier now misbehaves.
-/
namespace Vy.Sem
open Vy PyAst

/-- `&` -/
def tmplM38 : List PyStmt := [(.expr (.call (.attr (.name "stack") "append") [(.attr (.name "ctx") "register")] [])), (.assign [(.name "arguments")] (.call (.name "wrapify") [(.name "stack"), (.attr (.name "function_A") "arity")] [("ctx", (.name "ctx"))])), (.assign [(.attr (.name "ctx") "register")] (.call (.name "safe_apply") [(.name "function_A"), (.starred (.subscript (.name "arguments") (.slice none none (some (.unary "USub" (.cint (1)))))))] [("ctx", (.name "ctx"))]))]
def isTmplM38 : List PyStmt → Bool
  | [(.expr (.call (.attr (.name "stack") "append") [(.attr (.name "ctx") "register")] [])), (.assign [(.name "arguments")] (.call (.name "wrapify") [(.name "stack"), (.attr (.name "function_A") "arity")] [("ctx", (.name "ctx"))])), (.assign [(.attr (.name "ctx") "register")] (.call (.name "safe_apply") [(.name "function_A"), (.starred (.subscript (.name "arguments") (.slice none none (some (.unary "USub" (.cint (1)))))))] [("ctx", (.name "ctx"))]))] => true
  | _ => false
theorem isTmplM38_sound (b : List PyStmt) (h : isTmplM38 b = true) : b = tmplM38 := by
  unfold isTmplM38 at h; split at h <;> first | rfl | simp at h

/-- `v` -/
def tmplM118 : List PyStmt := [(.assign [(.name "arguments")] (.call (.name "wrapify") [(.name "stack"), (.attr (.name "function_A") "arity")] [("ctx", (.name "ctx"))])), (.expr (.call (.attr (.name "stack") "append") [(.call (.name "vectorise") [(.name "function_A"), (.starred (.subscript (.name "arguments") (.slice none none (some (.unary "USub" (.cint (1)))))))] [("explicit", (.cbool true)), ("ctx", (.name "ctx"))])] []))]
def isTmplM118 : List PyStmt → Bool
  | [(.assign [(.name "arguments")] (.call (.name "wrapify") [(.name "stack"), (.attr (.name "function_A") "arity")] [("ctx", (.name "ctx"))])), (.expr (.call (.attr (.name "stack") "append") [(.call (.name "vectorise") [(.name "function_A"), (.starred (.subscript (.name "arguments") (.slice none none (some (.unary "USub" (.cint (1)))))))] [("explicit", (.cbool true)), ("ctx", (.name "ctx"))])] []))] => true
  | _ => false
theorem isTmplM118_sound (b : List PyStmt) (h : isTmplM118 b = true) : b = tmplM118 := by
  unfold isTmplM118 at h; split at h <;> first | rfl | simp at h

/-- `~` -/
def tmplM126 : List PyStmt := [(.ifS (.compare (.attr (.name "function_A") "arity") [(.ge, (.cint (2)))]) [(.assign [(.attr (.name "ctx") "retain_popped")] (.cbool true)), (.assign [(.name "arguments")] (.call (.name "wrapify") [(.name "stack"), (.attr (.name "function_A") "arity")] [("ctx", (.name "ctx"))])), (.assign [(.attr (.name "ctx") "retain_popped")] (.cbool false)), (.expr (.call (.attr (.name "stack") "append") [(.call (.name "safe_apply") [(.name "function_A"), (.starred (.subscript (.name "arguments") (.slice none none (some (.unary "USub" (.cint (1)))))))] [("ctx", (.name "ctx"))])] []))] [(.ifS (.compare (.attr (.name "function_A") "arity") [(.eq, (.cint (1)))]) [(.expr (.call (.attr (.name "stack") "append") [(.call (.name "vy_filter") [(.call (.name "pop") [(.name "stack"), (.cint (1))] [("ctx", (.name "ctx"))]), (.name "function_A")] [("ctx", (.name "ctx"))])] []))] [])])]
def isTmplM126 : List PyStmt → Bool
  | [(.ifS (.compare (.attr (.name "function_A") "arity") [(.ge, (.cint (2)))]) [(.assign [(.attr (.name "ctx") "retain_popped")] (.cbool true)), (.assign [(.name "arguments")] (.call (.name "wrapify") [(.name "stack"), (.attr (.name "function_A") "arity")] [("ctx", (.name "ctx"))])), (.assign [(.attr (.name "ctx") "retain_popped")] (.cbool false)), (.expr (.call (.attr (.name "stack") "append") [(.call (.name "safe_apply") [(.name "function_A"), (.starred (.subscript (.name "arguments") (.slice none none (some (.unary "USub" (.cint (1)))))))] [("ctx", (.name "ctx"))])] []))] [(.ifS (.compare (.attr (.name "function_A") "arity") [(.eq, (.cint (1)))]) [(.expr (.call (.attr (.name "stack") "append") [(.call (.name "vy_filter") [(.call (.name "pop") [(.name "stack"), (.cint (1))] [("ctx", (.name "ctx"))]), (.name "function_A")] [("ctx", (.name "ctx"))])] []))] [])])] => true
  | _ => false
theorem isTmplM126_sound (b : List PyStmt) (h : isTmplM126 b = true) : b = tmplM126 := by
  unfold isTmplM126 at h; split at h <;> first | rfl | simp at h

/-- `₌` -/
def tmplM8332 : List PyStmt := [(.assign [(.name "stack_copy")] (.call (.name "list") [(.call (.name "deep_copy") [(.name "stack")] [])] [])), (.assign [(.name "arguments_A")] (.call (.name "wrapify") [(.name "stack_copy"), (.attr (.name "function_A") "arity")] [("ctx", (.name "ctx"))])), (.assign [(.name "arguments_B")] (.call (.name "wrapify") [(.name "stack"), (.attr (.name "function_B") "arity")] [("ctx", (.name "ctx"))])), (.expr (.call (.attr (.name "stack") "append") [(.call (.name "safe_apply") [(.name "function_A"), (.starred (.subscript (.name "arguments_A") (.slice none none (some (.unary "USub" (.cint (1)))))))] [("ctx", (.name "ctx"))])] [])), (.expr (.call (.attr (.name "stack") "append") [(.call (.name "safe_apply") [(.name "function_B"), (.starred (.subscript (.name "arguments_B") (.slice none none (some (.unary "USub" (.cint (1)))))))] [("ctx", (.name "ctx"))])] []))]
def isTmplM8332 : List PyStmt → Bool
  | [(.assign [(.name "stack_copy")] (.call (.name "list") [(.call (.name "deep_copy") [(.name "stack")] [])] [])), (.assign [(.name "arguments_A")] (.call (.name "wrapify") [(.name "stack_copy"), (.attr (.name "function_A") "arity")] [("ctx", (.name "ctx"))])), (.assign [(.name "arguments_B")] (.call (.name "wrapify") [(.name "stack"), (.attr (.name "function_B") "arity")] [("ctx", (.name "ctx"))])), (.expr (.call (.attr (.name "stack") "append") [(.call (.name "safe_apply") [(.name "function_A"), (.starred (.subscript (.name "arguments_A") (.slice none none (some (.unary "USub" (.cint (1)))))))] [("ctx", (.name "ctx"))])] [])), (.expr (.call (.attr (.name "stack") "append") [(.call (.name "safe_apply") [(.name "function_B"), (.starred (.subscript (.name "arguments_B") (.slice none none (some (.unary "USub" (.cint (1)))))))] [("ctx", (.name "ctx"))])] []))] => true
  | _ => false
theorem isTmplM8332_sound (b : List PyStmt) (h : isTmplM8332 b = true) : b = tmplM8332 := by
  unfold isTmplM8332 at h; split at h <;> first | rfl | simp at h

/-- `₍` -/
def tmplM8333 : List PyStmt := [(.assign [(.name "stack_copy")] (.call (.name "list") [(.call (.name "deep_copy") [(.name "stack")] [])] [])), (.assign [(.name "arguments_A")] (.call (.name "wrapify") [(.name "stack_copy"), (.attr (.name "function_A") "arity")] [("ctx", (.name "ctx"))])), (.assign [(.name "arguments_B")] (.call (.name "wrapify") [(.name "stack"), (.attr (.name "function_B") "arity")] [("ctx", (.name "ctx"))])), (.assign [(.name "res_A")] (.call (.name "safe_apply") [(.name "function_A"), (.starred (.subscript (.name "arguments_A") (.slice none none (some (.unary "USub" (.cint (1)))))))] [("ctx", (.name "ctx"))])), (.assign [(.name "res_B")] (.call (.name "safe_apply") [(.name "function_B"), (.starred (.subscript (.name "arguments_B") (.slice none none (some (.unary "USub" (.cint (1)))))))] [("ctx", (.name "ctx"))])), (.expr (.call (.attr (.name "stack") "append") [(.list [(.name "res_A"), (.name "res_B")])] []))]
def isTmplM8333 : List PyStmt → Bool
  | [(.assign [(.name "stack_copy")] (.call (.name "list") [(.call (.name "deep_copy") [(.name "stack")] [])] [])), (.assign [(.name "arguments_A")] (.call (.name "wrapify") [(.name "stack_copy"), (.attr (.name "function_A") "arity")] [("ctx", (.name "ctx"))])), (.assign [(.name "arguments_B")] (.call (.name "wrapify") [(.name "stack"), (.attr (.name "function_B") "arity")] [("ctx", (.name "ctx"))])), (.assign [(.name "res_A")] (.call (.name "safe_apply") [(.name "function_A"), (.starred (.subscript (.name "arguments_A") (.slice none none (some (.unary "USub" (.cint (1)))))))] [("ctx", (.name "ctx"))])), (.assign [(.name "res_B")] (.call (.name "safe_apply") [(.name "function_B"), (.starred (.subscript (.name "arguments_B") (.slice none none (some (.unary "USub" (.cint (1)))))))] [("ctx", (.name "ctx"))])), (.expr (.call (.attr (.name "stack") "append") [(.list [(.name "res_A"), (.name "res_B")])] []))] => true
  | _ => false
theorem isTmplM8333_sound (b : List PyStmt) (h : isTmplM8333 b = true) : b = tmplM8333 := by
  unfold isTmplM8333 at h; split at h <;> first | rfl | simp at h

/-- `ƒ` -/
def tmplM402 : List PyStmt := [(.assign [(.attr (.name "function_A") "stored_arity")] (.cint (2))), (.expr (.call (.attr (.name "stack") "append") [(.call (.name "vy_reduce") [(.name "function_A"), (.call (.name "pop") [(.name "stack"), (.cint (1)), (.name "ctx")] []), (.name "ctx")] [])] []))]
def isTmplM402 : List PyStmt → Bool
  | [(.assign [(.attr (.name "function_A") "stored_arity")] (.cint (2))), (.expr (.call (.attr (.name "stack") "append") [(.call (.name "vy_reduce") [(.name "function_A"), (.call (.name "pop") [(.name "stack"), (.cint (1)), (.name "ctx")] []), (.name "ctx")] [])] []))] => true
  | _ => false
theorem isTmplM402_sound (b : List PyStmt) (h : isTmplM402 b = true) : b = tmplM402 := by
  unfold isTmplM402 at h; split at h <;> first | rfl | simp at h

/-- `ɖ` -/
def tmplM598 : List PyStmt := [(.assign [(.attr (.name "function_A") "stored_arity")] (.cint (2))), (.expr (.call (.attr (.name "stack") "append") [(.call (.name "scanl") [(.name "function_A"), (.call (.name "pop") [(.name "stack"), (.cint (1)), (.name "ctx")] []), (.name "ctx")] [])] []))]
def isTmplM598 : List PyStmt → Bool
  | [(.assign [(.attr (.name "function_A") "stored_arity")] (.cint (2))), (.expr (.call (.attr (.name "stack") "append") [(.call (.name "scanl") [(.name "function_A"), (.call (.name "pop") [(.name "stack"), (.cint (1)), (.name "ctx")] []), (.name "ctx")] [])] []))] => true
  | _ => false
theorem isTmplM598_sound (b : List PyStmt) (h : isTmplM598 b = true) : b = tmplM598 := by
  unfold isTmplM598 at h; split at h <;> first | rfl | simp at h

/-- `ß` -/
def tmplM223 : List PyStmt := [(.ifS (.call (.name "boolify") [(.call (.name "pop") [(.name "stack"), (.cint (1)), (.name "ctx")] []), (.name "ctx")] []) [(.expr (.call (.attr (.name "stack") "append") [(.name "function_A")] [])), (.expr (.call (.name "function_call") [(.name "stack"), (.name "ctx")] []))] [])]
def isTmplM223 : List PyStmt → Bool
  | [(.ifS (.call (.name "boolify") [(.call (.name "pop") [(.name "stack"), (.cint (1)), (.name "ctx")] []), (.name "ctx")] []) [(.expr (.call (.attr (.name "stack") "append") [(.name "function_A")] [])), (.expr (.call (.name "function_call") [(.name "stack"), (.name "ctx")] []))] [])] => true
  | _ => false
theorem isTmplM223_sound (b : List PyStmt) (h : isTmplM223 b = true) : b = tmplM223 := by
  unfold isTmplM223 at h; split at h <;> first | rfl | simp at h

def modKeys : List Nat := [38, 118, 126, 8332, 8333, 402, 598, 223]

def isModTmpl (c : Nat) (b : List PyStmt) : Bool :=
  if c = 38 then isTmplM38 b
  else if c = 118 then isTmplM118 b
  else if c = 126 then isTmplM126 b
  else if c = 8332 then isTmplM8332 b
  else if c = 8333 then isTmplM8333 b
  else if c = 402 then isTmplM402 b
  else if c = 598 then isTmplM598 b
  else if c = 223 then isTmplM223 b
  else false

/-- a table entry is one of the eight modifiers with the expected template -/
def modEntryOK (e : Gen.Entry) : Bool :=
  match e.key, e.body with
  | [c], some b => isModTmpl c b
  | _, _ => false

/-- every entry of the modifier table is as expected, and the eight modifiers are all there -/
def ModsOK (mods : List Gen.Entry) : Prop :=
  mods.all modEntryOK = true ∧ modKeys.all (fun c => (lookupEntry mods [c]).isSome) = true

instance (mods : List Gen.Entry) : Decidable (ModsOK mods) := by unfold ModsOK; infer_instance

theorem lookupEntry_all (P : Gen.Entry → Prop) (mods : List Gen.Entry) (k : Str) (hall : ∀ e ∈ mods, P e) :
    ∀ (acc : Option Gen.Entry) (e : Gen.Entry), (∀ e0, acc = some e0 → P e0 ∧ e0.key = k) →
      mods.foldl (fun acc e => if e.key = k then some e else acc) acc = some e → P e ∧ e.key = k := by
  induction mods with
  | nil => intro acc e hacc h; exact hacc e h
  | cons x xs ih =>
    intro acc e hacc h
    simp only [List.foldl_cons] at h
    apply ih (fun e he => hall e (List.mem_cons_of_mem _ he)) _ e _ h
    intro e0 he0
    by_cases hx : x.key = k
    · simp [hx] at he0; subst he0; exact ⟨hall x (List.mem_cons_self), hx⟩
    · simp [hx] at he0; exact hacc e0 he0

theorem modsOK_lookup (mods : List Gen.Entry) (hM : ModsOK mods) (k : Str) (e : Gen.Entry) (h : lookupEntry mods k = some e) :
    modEntryOK e = true ∧ e.key = k := by
  have hM1 := hM.1
  rw [List.all_eq_true] at hM1
  exact lookupEntry_all (fun e => modEntryOK e = true) mods k hM1 Option.none e (by intro e0 he0; simp at he0) h

theorem modsOK_present (mods : List Gen.Entry) (hM : ModsOK mods) (c : Nat) (hc : c ∈ modKeys) : (lookupEntry mods [c]).isSome = true := by
  have hM2 := hM.2
  rw [List.all_eq_true] at hM2
  exact hM2 c hc

end Vy.Sem
