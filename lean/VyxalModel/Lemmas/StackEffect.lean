import VyxalModel.Model.StackEffect
/-!
# Soundness of the stack-depth analysis

Concrete semantics of stack operations over an arbitrary value type: pops remove from the top, pushes
append arbitrary values, `neutral` statements leave the stack alone (that helpers which are not handed
`stack` do not reach it is assumption T7, validated by the sentinel correspondence), `whole` may do
anything.  If the analysis bounds the depth by `D`, every run keeps everything below the top `D`
entries — the *same* list `pre`, untouched.
-/
namespace SE

variable {α : Type}

mutual
inductive RunS : SOp → List α → List α → Prop
  | pop (k σ) : RunS (.pop k) σ (σ.take (σ.length - k))
  | peek (j σ) : RunS (.peek j) σ σ
  | push (σ v) : RunS .push σ (σ ++ [v])
  | extend (σ vs) : RunS .extend σ (σ ++ vs)
  | neutral (σ) : RunS .neutral σ σ
  | whole (σ σ') : RunS .whole σ σ'
  | ifT {t e σ σ'} : RunL t σ σ' → RunS (.ifS t e) σ σ'
  | ifE {t e σ σ'} : RunL e σ σ' → RunS (.ifS t e) σ σ'
  | loop {b σ σ'} : RunLoop b σ σ' → RunS (.loop b) σ σ'
inductive RunL : List SOp → List α → List α → Prop
  | nil (σ) : RunL [] σ σ
  | cons {o rest σ σ1 σ2} : RunS o σ σ1 → RunL rest σ1 σ2 → RunL (o :: rest) σ σ2
inductive RunLoop : List SOp → List α → List α → Prop
  | stop (b σ) : RunLoop b σ σ
  | iter {b σ σ1 σ2} : RunL b σ σ1 → RunLoop b σ1 σ2 → RunLoop b σ σ2
end

/-- the invariant: `pre` is still there, and at least `D + h` entries lie above it -/
def Keeps (pre : List α) (D : Nat) (h : Int) (σ : List α) : Prop :=
  ∃ res, σ = pre ++ res ∧ (D : Int) + h ≤ res.length

theorem Keeps.weaken {pre : List α} {D : Nat} {h h' : Int} {σ : List α} (hk : Keeps pre D h σ) (hle : h' ≤ h) :
    Keeps pre D h' σ := by
  obtain ⟨res, hr, hl⟩ := hk
  exact ⟨res, hr, by omega⟩

mutual
theorem depthS_mono : ∀ (o : SOp) (s s' : St), depthS s o = some s' → s.d ≤ s'.d
  | .pop k, s, s', h => by simp only [depthS, Option.some.injEq] at h; subst h; simp [St.pop]; omega
  | .peek j, s, s', h => by simp only [depthS, Option.some.injEq] at h; subst h; simp [St.peek]; omega
  | .push, s, s', h => by simp only [depthS, Option.some.injEq] at h; subst h; simp
  | .extend, s, s', h => by simp only [depthS, Option.some.injEq] at h; subst h; simp
  | .neutral, s, s', h => by simp only [depthS, Option.some.injEq] at h; subst h; simp
  | .whole, s, s', h => by simp [depthS] at h
  | .ifS t e, s, s', h => by
      simp only [depthS] at h
      cases ht : depthL s t with
      | none => simp [ht] at h
      | some a =>
        cases he : depthL s e with
        | none => simp [ht, he] at h
        | some b =>
          simp only [ht, he, Option.some.injEq] at h; subst h
          have := depthL_mono t s a ht
          simp; omega
  | .loop b, s, s', h => by
      simp only [depthS] at h
      cases hb : depthL s b with
      | none => simp [hb] at h
      | some a =>
        simp only [hb] at h
        split at h
        · simp only [Option.some.injEq] at h; subst h
          exact depthL_mono b s a hb
        · simp at h
theorem depthL_mono : ∀ (l : List SOp) (s s' : St), depthL s l = some s' → s.d ≤ s'.d
  | [], s, s', h => by simp only [depthL, Option.some.injEq] at h; subst h; exact Nat.le_refl _
  | o :: rest, s, s', h => by
      simp only [depthL] at h
      cases ho : depthS s o with
      | none => simp [ho] at h
      | some s1 =>
        simp only [ho] at h
        have h1 := depthS_mono o s s1 ho
        have h2 := depthL_mono rest s1 s' h
        omega
end

theorem take_pre_append (pre res : List α) (k : Nat) (hk : k ≤ res.length) :
    (pre ++ res).take ((pre ++ res).length - k) = pre ++ res.take (res.length - k) := by
  rw [List.length_append, List.take_append]
  have e1 : pre.length + res.length - k - pre.length = res.length - k := by omega
  have e2 : pre.take (pre.length + res.length - k) = pre := List.take_of_length_le (by omega)
  rw [e1, e2]

mutual
theorem soundS : ∀ {o : SOp} {σ σ' : List α}, RunS o σ σ' → ∀ (s s' : St) (pre : List α) (D : Nat),
    depthS s o = some s' → s'.d ≤ D → Keeps pre D s.h σ → Keeps pre D s'.h σ'
  | _, _, _, .pop k σ, s, s', pre, D, h, hD, hk => by
      simp only [depthS, Option.some.injEq] at h; subst h
      obtain ⟨res, hr, hl⟩ := hk
      simp only [St.pop] at hD ⊢
      have hkl : (k : Int) ≤ res.length := by omega
      have hkl' : k ≤ res.length := by omega
      refine ⟨res.take (res.length - k), ?_, ?_⟩
      · rw [hr]; exact take_pre_append pre res k hkl'
      · rw [List.length_take]; omega
  | _, _, _, .peek j σ, s, s', pre, D, h, _, hk => by
      simp only [depthS, Option.some.injEq] at h; subst h; exact hk
  | _, _, _, .push σ v, s, s', pre, D, h, _, hk => by
      simp only [depthS, Option.some.injEq] at h; subst h
      obtain ⟨res, hr, hl⟩ := hk
      exact ⟨res ++ [v], by rw [hr, List.append_assoc], by simp; omega⟩
  | _, _, _, .extend σ vs, s, s', pre, D, h, _, hk => by
      simp only [depthS, Option.some.injEq] at h; subst h
      obtain ⟨res, hr, hl⟩ := hk
      exact ⟨res ++ vs, by rw [hr, List.append_assoc], by simp; omega⟩
  | _, _, _, .neutral σ, s, s', pre, D, h, _, hk => by
      simp only [depthS, Option.some.injEq] at h; subst h; exact hk
  | _, _, _, .whole σ σ', s, s', pre, D, h, _, _ => by simp [depthS] at h
  | _, _, _, .ifT (t := t) (e := e) hr, s, s', pre, D, h, hD, hk => by
      simp only [depthS] at h
      cases ht : depthL s t with
      | none => simp [ht] at h
      | some a =>
        cases he : depthL s e with
        | none => simp [ht, he] at h
        | some b =>
          simp only [ht, he, Option.some.injEq] at h; subst h
          simp only at hD ⊢
          exact (soundL hr s a pre D ht (by omega) hk).weaken (by omega)
  | _, _, _, .ifE (t := t) (e := e) hr, s, s', pre, D, h, hD, hk => by
      simp only [depthS] at h
      cases ht : depthL s t with
      | none => simp [ht] at h
      | some a =>
        cases he : depthL s e with
        | none => simp [ht, he] at h
        | some b =>
          simp only [ht, he, Option.some.injEq] at h; subst h
          simp only at hD ⊢
          exact (soundL hr s b pre D he (by omega) hk).weaken (by omega)
  | _, _, _, .loop (b := b) hr, s, s', pre, D, h, hD, hk => by
      simp only [depthS] at h
      cases hb : depthL s b with
      | none => simp [hb] at h
      | some a =>
        simp only [hb] at h
        split at h
        · rename_i hle
          simp only [Option.some.injEq] at h; subst h
          exact soundLoop hr s a pre D hb hle hD hk
        · simp at h
theorem soundL : ∀ {l : List SOp} {σ σ' : List α}, RunL l σ σ' → ∀ (s s' : St) (pre : List α) (D : Nat),
    depthL s l = some s' → s'.d ≤ D → Keeps pre D s.h σ → Keeps pre D s'.h σ'
  | _, _, _, .nil σ, s, s', pre, D, h, _, hk => by
      simp only [depthL, Option.some.injEq] at h; subst h; exact hk
  | _, _, _, .cons (o := o) (rest := rest) ho hr, s, s', pre, D, h, hD, hk => by
      simp only [depthL] at h
      cases h1 : depthS s o with
      | none => simp [h1] at h
      | some s1 =>
        simp only [h1] at h
        have hm := depthL_mono rest s1 s' h
        have k1 := soundS ho s s1 pre D h1 (by omega) hk
        exact soundL hr s1 s' pre D h hD k1
theorem soundLoop : ∀ {b : List SOp} {σ σ' : List α}, RunLoop b σ σ' → ∀ (s a : St) (pre : List α) (D : Nat),
    depthL s b = some a → s.h ≤ a.h → a.d ≤ D → Keeps pre D s.h σ → Keeps pre D s.h σ'
  | _, _, _, .stop b σ, s, a, pre, D, _, _, _, hk => hk
  | _, _, _, .iter hb hl, s, a, pre, D, hd, hle, hD, hk => by
      have k1 := (soundL hb s a pre D hd hD hk).weaken hle
      exact soundLoop hl s a pre D hd hle hD k1
end

end SE
