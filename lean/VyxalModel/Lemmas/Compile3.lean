import VyxalModel.Lemmas.ListLit
import VyxalModel.Lemmas.NamedFn
import VyxalModel.Lemmas.Modifiers
/-!
# The induction: fuel outside, program structure inside

`SimAt cfg env m` — every transpiled program of the fragment simulates at fuel `m` — is proved for all `m` by strong
induction.  At fuel `n`, constructs that run their parts at the *same* fuel (sequences, `if`, the first evaluation of a
`while` condition) use the structural induction hypothesis; loops and calls run their bodies at *smaller* fuel and use
the fuel hypothesis — which is what makes closures work: a closure body is not a sub-term of the calling program, but
it is a transpiled program of the fragment (an invariant of the closure tables, `Rel.lams`).
-/
namespace Vy.Sem
open Vy PyAst

variable {env : TEnv} {A : Option Val}

/-- statement-level simulation at fuel `n` -/
def SimSn (cfg : Cfg) (env : TEnv) (n : Nat) (s : Structure) (code : List PyStmt) : Prop :=
  ∀ (A : Option Val) σ π sg σ', Rel env A σ π → execS cfg n s σ = .ok (sg, σ') →
    ∃ π', execPL cfg n code π = .ok (sigP sg, π') ∧ Post env A sg σ' π'

theorem sims_nil (cfg : Cfg) (n : Nat) : Sims cfg env n [] [] := by
  intro A σ π sg σ' h hr
  simp [execL] at hr; obtain ⟨h1, h2⟩ := hr; subst h1; subst h2
  exact ⟨π, by simp [execPL, sigP], h⟩

theorem sims_cons (cfg : Cfg) (n : Nat) (s : Structure) (rest : List Structure) (a b : List PyStmt)
    (hs : SimSn cfg env n s a) (hr : Sims cfg env n rest b) : Sims cfg env n (s :: rest) (a ++ b) := by
  intro A σ π sg σ' h hex
  unfold execL at hex
  split at hex
  · simp at hex
  · simp only [R_ok_bind] at hex
    cases hs1 : execS cfg n s σ with
    | error e => simp [hs1] at hex
    | ok r1 =>
      obtain ⟨sg1, σ1⟩ := r1
      simp only [hs1, R_ok_bind] at hex
      obtain ⟨π1, he1, hP1⟩ := hs A σ π sg1 σ1 h hs1
      rw [execPL_append, he1]
      cases sg1 with
      | normal => simp only [sigP]; exact hr A σ1 π1 sg σ' hP1 hex
      | brk => simp at hex; obtain ⟨h1, h2⟩ := hex; subst h1; subst h2; exact ⟨π1, by simp [sigP], hP1⟩
      | cont => simp at hex; obtain ⟨h1, h2⟩ := hex; subst h1; subst h2; exact ⟨π1, by simp [sigP], hP1⟩
      | ret v => simp at hex; obtain ⟨h1, h2⟩ := hex; subst h1; subst h2; exact ⟨π1, by simp [sigP], hP1⟩

/-! ### `for` -/

theorem sim_forS_core {σ : RSt} {π : PSt} (cfg : Cfg) (n : Nat) (body : List Structure) (pbody : List PyStmt)
    (hb : ∀ m, m < n → Sims cfg env m body pbody)
    (var : Option Str) (pvar : PyExpr) (hfv : ForVar var pvar) (sg : Sig) (σ' : RSt) (h : Rel env A σ π)
    (items : List Val) (hit : iterRange cfg σ.pop1.1 = .ok items)
    (hloop : forLoop cfg n var body items σ.pop1.2 = .ok (sg, σ')) :
    ∃ π', execPL cfg n (forTemplate pvar pbody) π = .ok (sigP sg, π') ∧ Post env A sg σ' π' := by
  obtain ⟨π', he, hP⟩ := sim_for cfg n body pbody hb var pvar hfv n (Nat.le_refl n) items σ.pop1.2 (popPi σ π 1) sg σ' (rel_pop1 h) hloop
  refine ⟨π', ?_, hP⟩
  simp only [forTemplate, execPL_cons, execPS, eval_iterable_pop cfg n h items hit, R_ok_bind, asList]
  rw [he]; cases sg <;> simp [sigP, execPL]

theorem sim_forS (cfg : Cfg) (n : Nat) (names : List Str) (body : List Structure) (pbody : List PyStmt) (k : Nat)
    (hb : ∀ m, m < n → Sims cfg env m body pbody) :
    SimSn cfg env n (.forS names body)
      (forTemplate (match names with
          | [] => PyExpr.pname "VAR_" ([76, 79, 79, 80] ++ digitsOfNat k)
          | nm :: _ => if sanitise nm = [] then .attr ctxE "ghost_variable" else .pname "VAR_" (sanitise nm)) pbody) := by
  intro A σ π sg σ' h hr
  cases names with
  | nil =>
    unfold execS at hr
    simp only at hr
    cases hit : iterRange cfg σ.pop1.1 with
    | error e => simp [hit] at hr
    | ok items =>
      simp only [hit, R_ok_bind] at hr
      exact sim_forS_core cfg n body pbody hb Option.none _ (ForVar.unnamed k) sg σ' h items hit (by simpa using hr)
  | cons nm rest =>
    unfold execS at hr
    simp only at hr
    cases hit : iterRange cfg σ.pop1.1 with
    | error e => simp [hit] at hr
    | ok items =>
      simp only [hit, R_ok_bind] at hr
      have hsan : (nm.filter fun c => isLetter c || isDigit c) = sanitise nm := rfl
      rw [hsan] at hr
      -- the checks on the loop variable
      have hloop : forLoop cfg n (some (sanitise nm)) body items σ.pop1.2 = .ok (sg, σ') := by
        split at hr
        · simp at hr
        · split at hr
          · simp at hr
          · split at hr
            · simp at hr
            · simpa using hr
      by_cases he : sanitise nm = []
      · simp only [he, ↓reduceIte]
        rw [he] at hloop
        exact sim_forS_core cfg n body pbody hb (some []) _ ForVar.ghost sg σ' h items hit hloop
      · simp only [he, ↓reduceIte]
        exact sim_forS_core cfg n body pbody hb (some (sanitise nm)) _ (ForVar.named _ he) sg σ' h items hit hloop

/-! ### `while` -/

theorem sim_while_entry {σ1 : RSt} {π1 : PSt} (cfg : Cfg) (n : Nat) (cond : Option (List Structure)) (pc2 : List PyStmt)
    (hc2 : ∀ m, m < n → Sims cfg env m (condProg cond) pc2) (body : List Structure) (pbody : List PyStmt)
    (hb : ∀ m, m < n → Sims cfg env m body pbody)
    (sg : Sig) (σ' : RSt) (h1 : Rel env A σ1 π1)
    (hr : whileLoop cfg n cond body σ1.pop1.1 σ1.pop1.2 = .ok (sg, σ')) :
    ∃ π', execPL cfg n [condPop, .whileS boolifyCond
        ([ctxCall "context_values" "append" [nm "condition"]] ++ pbody ++ [ctxCall "context_values" "pop" []] ++ pc2 ++ [condPop])] π1 =
      .ok (sigP sg, π') ∧ Post env A sg σ' π' := by
  obtain ⟨hcp, hR⟩ := exec_condPop cfg n h1
  obtain ⟨π', he, hP⟩ := sim_while cfg n cond pc2 hc2 body pbody hb n (Nat.le_refl n) σ1.pop1.1 σ1.pop1.2 _ sg σ' hR (getVar_setVar_eq _ _ _) hr
  refine ⟨π', ?_, hP⟩
  simp only [execPL_cons, hcp, execPS]
  rw [he]; cases sg <;> simp [sigP, execPL]

theorem sim_whileS_some (cfg : Cfg) (n : Nat) (c body : List Structure) (pc1 pc2 pbody : List PyStmt)
    (hc1 : Sims cfg env n c pc1) (hc2 : ∀ m, m < n → Sims cfg env m c pc2) (hb : ∀ m, m < n → Sims cfg env m body pbody) :
    SimSn cfg env n (.whileS (some c) body)
      (pc1 ++ [condPop, .whileS boolifyCond
        ([ctxCall "context_values" "append" [nm "condition"]] ++ pbody ++ [ctxCall "context_values" "pop" []] ++ pc2 ++ [condPop])]) := by
  intro A σ π sg σ' h hr
  unfold execS at hr
  cases hcd : execL cfg n c σ with
  | error e => simp [hcd] at hr
  | ok r1 =>
    obtain ⟨sg1, σ1⟩ := r1
    simp only [hcd, R_ok_bind] at hr
    obtain ⟨π1, he1, hP1⟩ := hc1 A σ π sg1 σ1 h hcd
    rw [execPL_append, he1]
    cases sg1 with
    | normal =>
      simp only [sigP] at hr ⊢
      exact sim_while_entry cfg n (some c) pc2 hc2 body pbody hb sg σ' hP1 hr
    | brk => simp at hr
    | cont => simp at hr
    | ret v => simp at hr

theorem sim_whileS_none (cfg : Cfg) (n : Nat) (body : List Structure) (pc2 pbody : List PyStmt)
    (hc2 : ∀ m, m < n → Sims cfg env m (condProg Option.none) pc2) (hb : ∀ m, m < n → Sims cfg env m body pbody) :
    SimSn cfg env n (.whileS Option.none body)
      ([push (.call (.attr (.name "sympy") "nsimplify") [.cstrN [49]] [])] ++ [condPop, .whileS boolifyCond
        ([ctxCall "context_values" "append" [nm "condition"]] ++ pbody ++ [ctxCall "context_values" "pop" []] ++ pc2 ++ [condPop])]) := by
  intro A σ π sg σ' h hr
  unfold execS at hr
  simp only at hr
  obtain ⟨he, hR⟩ := exec_push cfg n _ _ (eval_nsimplify cfg n [49] π (by simp) (by decide)) h
  have h1 : natOfDigits [49] = 1 := by decide
  rw [h1] at hR he
  have hpre : execPL cfg n [push (.call (.attr (.name "sympy") "nsimplify") [.cstrN [49]] [])] π =
      .ok (.normal, π.setVar ("stack", []) (.list ((Val.int ((1 : Nat) : Int)) :: σ.stack).reverse)) := by
    simp only [execPL_cons, he, execPL]
  rw [execPL_append, hpre]
  exact sim_while_entry cfg n Option.none pc2 hc2 body pbody hb sg σ' hR hr

/-! ### `if`, lambdas -/

theorem simS_if (cfg : Cfg) (n : Nat) (bs : List (List Structure)) (cs : List (List PyStmt)) (hall : All2 (Sims cfg env n) bs cs) :
    SimSn cfg env n (.ifS bs) (ifChain cs) := by
  intro A σ π sg σ' h hr
  unfold execS at hr
  exact sim_ifChain cfg n bs cs hall σ π sg σ' h hr

theorem transpile_one (env : TEnv) : transpileToken env ⟨.number, [49]⟩ =
    .ok [push (.call (.attr (.name "sympy") "nsimplify") [.cstrN [49]] [])] := by
  have := digits_parts [49] (by simp) (by decide)
  simp [transpileToken, this.1, this.2]

/-- a lambda: a new closure on both sides -/
theorem simS_lam (cfg : Cfg) (n : Nat) (ar : Option Nat) (body : List Structure) (k : Nat) (b : List PyStmt) (k' : Nat)
    (hfrag : fragL env.elements body = true) (htr : transpileL env (k + 1) body = .ok (b, k')) :
    SimSn cfg env n (.lam ar body) (lambdaTemplate (digitsOfNat k) (arityExpr ar) (orPass b)) := by
  intro A σ π sg σ' h hr
  unfold execS at hr
  simp at hr; obtain ⟨h1, h2⟩ := hr; subst h1; subst h2
  have ha : ArE (arityExpr ar) (declArity ar) := by
    cases ar with
    | none => right; exact ⟨rfl, rfl⟩
    | some a =>
      left
      have : ¬ ((a : Int) < 0) := by omega
      simp [arityExpr, pyInt, declArity, this]
  obtain ⟨π', he, hR⟩ := sim_lambdaTemplate cfg n h (digitsOfNat k) (arityExpr ar) _ ha body (orPass b)
    ⟨k + 1, b, k', htr, Or.inr rfl⟩ hfrag (σ.params.map (·.1) ++ σ.shadow)
  exact ⟨π', by simpa [sigP] using he, by simpa [Post] using hR⟩


/-- a list literal -/
theorem simS_list (cfg : Cfg) (n : Nat) (ih : ∀ m, m < n → SimAt cfg env m) (items : List (List Structure)) (k : Nat)
    (cs : List (List PyStmt)) (k' : Nat) (hf : fragLL env.elements items = true) (ht : transpileLL env k items = .ok (cs, k')) :
    SimSn cfg env n (.listS items) (listTemplate cs) := by
  intro A σ π sg σ' h hr
  unfold execS at hr
  cases hli : listItems cfg n items σ with
  | error e => simp [hli] at hr
  | ok r =>
    obtain ⟨vals, σ1⟩ := r
    simp [hli] at hr; obtain ⟨h1, h2⟩ := hr; subst h1; subst h2
    -- temp_list = []
    have s1 : execPS cfg n (assign1 (nm "temp_list") (.list [])) π = .ok (.normal, π.setVar ("temp_list", []) (.list [])) := by
      simp [assign1, nm, execPS, evalE, evalArgs, assignTo]
    have hR1 := h.setJunk "temp_list" (.list []) (by decide)
    have hitems : ∃ π2, execPL cfg n ((cs.map listItemTemplate).flatten) (π.setVar ("temp_list", []) (.list [])) = .ok (.normal, π2) ∧
        Rel env A σ1 π2 ∧ π2.getVar ("temp_list", []) = some (.list vals) := by
      cases n with
      | zero =>
        cases items with
        | nil =>
          simp [transpileLL] at ht; obtain ⟨e1, _⟩ := ht; subst e1
          simp [listItems] at hli; obtain ⟨e1, e2⟩ := hli; subst e1; subst e2
          exact ⟨_, by simp [execPL], hR1, getVar_setVar_eq _ _ _⟩
        | cons i r => simp [listItems] at hli
      | succ m =>
        have := sim_listItems cfg m (ih m (by omega)) items k cs k' hf ht [] vals σ1 hR1 (getVar_setVar_eq _ _ _) hli
        simpa using this
    obtain ⟨π2, he2, hR2, hacc2⟩ := hitems
    have hev : evalE cfg n (callN "list" [callN "deep_copy" [nm "temp_list"]]) π2 = .ok (.list vals, π2) := by
      simp [callN, nm, evalE, evalSpecial, hacc2]
    obtain ⟨he3, hR3⟩ := exec_push cfg n _ _ hev hR2
    refine ⟨_, ?_, hR3⟩
    simp only [listTemplate, List.append_assoc, List.cons_append, List.nil_append, execPL_cons, s1]
    rw [execPL_append, he2]
    simp only [execPL_cons, he3, execPL, sigP]

theorem sims_orPass' {cfg : Cfg} {n : Nat} {l : List Structure} {a : List PyStmt} (h : Sims cfg env n l a) : Sims cfg env n l (orPass a) := by
  intro A σ π sg σ' hR hr
  rw [execPL_orPass]; exact h A σ π sg σ' hR hr

/-- a statement followed by more code: sequencing at statement level -/
theorem simSn_append (cfg : Cfg) (n : Nat) (s : Structure) (a b : List PyStmt) (s2 : Structure)
    (h1 : SimSn cfg env n s a) (h2 : SimSn cfg env n s2 b)
    (hseq : ∀ σ, execS cfg n s σ = (do let r ← execS cfg n s σ; pure r)) : True := trivial

mutual
theorem simS (cfg : Cfg) (env : TEnv) (hE : cfg.elements = env.elements) (hM : ModsOK env.modifiers) (n : Nat) (ih : ∀ m, m < n → SimAt cfg env m) :
    ∀ (s : Structure), fragS env.elements s = true → ∀ (k : Nat) (code : List PyStmt) (k' : Nat),
      transpileS env k s = .ok (code, k') → SimSn cfg env n s code
  | .generic t, hf, k, code, k', ht => by
      simp only [fragS] at hf
      simp only [transpileS] at ht
      cases htt : transpileToken env t with
      | error e => simp [htt] at ht
      | ok c =>
        simp [htt] at ht; obtain ⟨h1, _⟩ := ht; subst h1
        intro A σ π sg σ' h hr
        unfold execS at hr
        exact sim_tok cfg env hE n (fun m hm => ih m (by omega)) t hf c htt h sg σ' hr
  | .brk p, hf, k, code, k', ht => by
      simp [transpileS] at ht; obtain ⟨h1, _⟩ := ht; subst h1
      intro A σ π sg σ' h hr
      exact sim_brk cfg n p h sg σ' hr
  | .recurse p, hf, k, code, k', ht => by
      simp [transpileS] at ht; obtain ⟨h1, _⟩ := ht; subst h1
      intro A σ π sg σ' h hr
      exact sim_recurse cfg n p h sg σ' hr
  | .ifS bs, hf, k, code, k', ht => by
      simp only [fragS] at hf
      simp only [transpileS] at ht
      cases hll : transpileLL env k bs with
      | error e => simp [hll] at ht
      | ok r =>
        obtain ⟨cs, k1⟩ := r
        simp [hll] at ht; obtain ⟨h1, _⟩ := ht; subst h1
        exact simS_if cfg n bs cs (simLL cfg env hE hM n ih bs hf k cs k1 hll)
  | .forS names body, hf, k, code, k', ht => by
      simp only [fragS] at hf
      cases names with
      | nil =>
        simp only [transpileS] at ht
        cases hb : transpileL env (k + 1) body with
        | error e => simp [hb] at ht
        | ok r =>
          obtain ⟨b, k2⟩ := r
          simp [hb] at ht; obtain ⟨h1, _⟩ := ht; subst h1
          exact sim_forS cfg n [] body (orPass b) k (fun m hm => sims_orPass' (ih m hm body (k + 1) b k2 hf hb))
      | cons nm rest =>
        simp only [transpileS] at ht
        cases hb : transpileL env k body with
        | error e => simp [hb] at ht
        | ok r =>
          obtain ⟨b, k2⟩ := r
          simp [hb] at ht; obtain ⟨h1, _⟩ := ht; subst h1
          exact sim_forS cfg n (nm :: rest) body (orPass b) k (fun m hm => sims_orPass' (ih m hm body k b k2 hf hb))
  | .whileS Option.none body, hf, k, code, k', ht => by
      simp only [fragS] at hf
      simp only [transpileS, transpile_one] at ht
      cases hb : transpileL env k body with
      | error e => simp [hb] at ht
      | ok r =>
        obtain ⟨b, k2⟩ := r
        simp [hb] at ht; obtain ⟨h1, _⟩ := ht; subst h1
        have hc : ∀ m, m < n → Sims cfg env m (condProg Option.none) [push (.call (.attr (.name "sympy") "nsimplify") [.cstrN [49]] [])] := by
          intro m hm
          have hfr : fragL env.elements (condProg Option.none) = true := by simp [condProg, fragL, fragS, fragTok]
          have htr : transpileL env 0 (condProg Option.none) = .ok ([push (.call (.attr (.name "sympy") "nsimplify") [.cstrN [49]] [])], 0) := by
            simp [condProg, transpileL, transpileS, transpile_one]
          exact ih m hm _ 0 _ 0 hfr htr
        have := sim_whileS_none cfg n body _ (orPass b) hc (fun m hm => sims_orPass' (ih m hm body k b k2 hf hb))
        simpa [whileTemplate] using this
  | .whileS (some c) body, hf, k, code, k', ht => by
      simp only [fragS, Bool.and_eq_true] at hf
      simp only [transpileS] at ht
      cases hc1 : transpileL env k c with
      | error e => simp [hc1] at ht
      | ok r1 =>
        obtain ⟨c1, k1⟩ := r1
        cases hb : transpileL env k1 body with
        | error e => simp [hc1, hb] at ht
        | ok r2 =>
          obtain ⟨b, k2⟩ := r2
          cases hc2 : transpileL env k2 c with
          | error e => simp [hc1, hb, hc2] at ht
          | ok r3 =>
            obtain ⟨c2, k3⟩ := r3
            simp [hc1, hb, hc2] at ht; obtain ⟨h1, _⟩ := ht; subst h1
            have := sim_whileS_some cfg n c body (orPass c1) (orPass c2) (orPass b)
              (sims_orPass' (simL cfg env hE hM n ih c hf.1 k c1 k1 hc1))
              (fun m hm => sims_orPass' (ih m hm c k2 c2 k3 hf.1 hc2))
              (fun m hm => sims_orPass' (ih m hm body k1 b k2 hf.2 hb))
            simpa using this
  | .lam ar body, hf, k, code, k', ht => by
      simp only [fragS] at hf
      simp only [transpileS] at ht
      cases hb : transpileL env (k + 1) body with
      | error e => simp [hb] at ht
      | ok r =>
        obtain ⟨b, k2⟩ := r
        simp [hb] at ht; obtain ⟨h1, _⟩ := ht; subst h1
        exact simS_lam cfg n ar body k b k2 hf hb
  | .lamOp kind body, hf, k, code, k', ht => by
      simp only [fragS, Bool.and_eq_true] at hf
      simp only [transpileS] at ht
      cases hb : transpileL env (k + 1) body with
      | error e => simp [hb] at ht
      | ok r =>
        obtain ⟨b, k2⟩ := r
        cases hta : transpileToken env ⟨.general, lamOpKey kind⟩ with
        | error e => simp [hb, hta] at ht
        | ok a =>
          simp [hb, hta] at ht; obtain ⟨h1, _⟩ := ht; subst h1
          intro A σ π sg σ' h hr
          unfold execS at hr
          simp only at hr
          -- first the lambda …
          have ha : ArE (.cint 1) 1 := Or.inl rfl
          obtain ⟨π1, he1, hR1⟩ := sim_lambdaTemplate cfg n h (digitsOfNat k) (.cint 1) 1 ha body (orPass b)
            ⟨k + 1, b, k2, hb, Or.inr rfl⟩ hf.1 (σ.params.map (·.1) ++ σ.shadow)
          rw [execPL_append, he1]
          simp only
          -- … then the element
          have htok : execTok cfg n ⟨.general, lamOpKey kind⟩
              { σ with fns := σ.fns ++ [⟨1, Option.none, body, σ.params.map (·.1) ++ σ.shadow, true⟩],
                       stack := .fn σ.fns.length :: σ.stack } = .ok (sg, σ') := by
            unfold execTok
            simpa using hr
          exact sim_tok cfg env hE n (fun m hm => ih m (by omega)) ⟨.general, lamOpKey kind⟩ hf.2 a hta hR1 sg σ' htok
  | .fnCall name, hf, k, code, k', ht => by
      simp [transpileS] at ht; obtain ⟨h1, _⟩ := ht; subst h1
      exact sim_fnCall cfg n ih name
  | .fnDef name params body, hf, k, code, k', ht => by
      simp only [fragS] at hf
      simp only [transpileS] at ht
      cases hb : transpileL env k body with
      | error e => simp [hb] at ht
      | ok r =>
        obtain ⟨b, k2⟩ := r
        simp [hb] at ht; obtain ⟨h1, _⟩ := ht; subst h1
        exact sim_fnDef cfg n name params body (orPass b) ⟨k, b, k2, hb, Or.inr rfl⟩ hf
  | .listS items, hf, k, code, k', ht => by
      simp only [fragS] at hf
      simp only [transpileS] at ht
      cases hll : transpileLL env k items with
      | error e => simp [hll] at ht
      | ok r =>
        obtain ⟨cs, k1⟩ := r
        simp [hll] at ht; obtain ⟨h1, _⟩ := ht; subst h1
        exact simS_list cfg n ih items k cs k1 hf hll
  | .mon m a, hf, k, code, k', ht => by
      simp only [fragS] at hf
      simp only [transpileS] at ht
      cases hw : wrapLambda env k a with
      | error e => simp [hw] at ht
      | ok r =>
        obtain ⟨fa, k1⟩ := r
        cases hmt : modTemplate env m with
        | error e => simp [hw, hmt] at ht
        | ok tmpl =>
          simp [hw, hmt] at ht; obtain ⟨h1, _⟩ := ht; subst h1
          intro A σ π sg σ' h hr
          unfold execS at hr
          simp only at hr
          obtain ⟨arE, B, hfa, hArE, hB, hfr⟩ := wrap_spec cfg env hE a k fa k1 hw hf
          subst hfa
          obtain ⟨π1, he1, hR1, hv1, _⟩ := sim_wrapper cfg n h "function_A" (by decide) (by decide) (digitsOfNat k) arE _ hArE _ B hB hfr
            (σ.params.map (·.1) ++ σ.shadow)
          obtain ⟨π2, he2, hP⟩ := sim_monTemplate cfg n (fun m hm => ih m (by omega)) hM hR1 m tmpl hmt σ.fns.length
            ⟨(wrapArity cfg a).1, Option.none, (wrapArity cfg a).2, σ.params.map (·.1) ++ σ.shadow, true⟩ (by simp) rfl hv1 sg σ' hr
          refine ⟨π2, ?_, hP⟩
          have hcode : lambdaTemplate (digitsOfNat k) arE B ++ functionPop "A" :: tmpl =
              (lambdaTemplate (digitsOfNat k) arE B ++ [assign1 (nm "function_A") pop1pos]) ++ tmpl := by
            simp [functionPop]
          rw [hcode, execPL_append, he1]
          exact he2
  | .dy m a b, hf, k, code, k', ht => by
      simp only [fragS, Bool.and_eq_true] at hf
      simp only [transpileS] at ht
      cases hwa : wrapLambda env k a with
      | error e => simp [hwa] at ht
      | ok r =>
        obtain ⟨fa, k1⟩ := r
        cases hwb : wrapLambda env k1 b with
        | error e => simp [hwa, hwb] at ht
        | ok r2 =>
          obtain ⟨fb, k2⟩ := r2
          cases hmt : modTemplate env m with
          | error e => simp [hwa, hwb, hmt] at ht
          | ok tmpl =>
            simp [hwa, hwb, hmt] at ht; obtain ⟨h1, _⟩ := ht; subst h1
            intro A σ π sg σ' h hr
            unfold execS at hr
            simp only at hr
            obtain ⟨arEa, Ba, hfa, hArEa, hBa, hfra⟩ := wrap_spec cfg env hE a k fa k1 hwa hf.1
            obtain ⟨arEb, Bb, hfb, hArEb, hBb, hfrb⟩ := wrap_spec cfg env hE b k1 fb k2 hwb hf.2
            subst hfa; subst hfb
            obtain ⟨π1, he1, hR1, hv1, _⟩ := sim_wrapper cfg n h "function_A" (by decide) (by decide) (digitsOfNat k) arEa _ hArEa _ Ba hBa hfra
              (σ.params.map (·.1) ++ σ.shadow)
            obtain ⟨π2, he2, hR2, hv2, hkeep⟩ := sim_wrapper cfg n hR1 "function_B" (by decide) (by decide) (digitsOfNat k1) arEb _ hArEb _ Bb hBb hfrb
              (σ.params.map (·.1) ++ σ.shadow)
            have hvA2 : π2.getVar ("function_A", []) = some (.fn σ.fns.length) := by
              rw [hkeep _ (by intro he; injection he with h1 _; exact absurd h1 (by decide)) (by decide) (by decide)]; exact hv1
            simp only [List.append_assoc, List.cons_append, List.nil_append, List.length_append, List.length_cons, List.length_nil,
              Nat.zero_add] at hR2 hv2
            obtain ⟨π3, he3, hP⟩ := sim_dyTemplate cfg n (fun m hm => ih m (by omega)) hM hR2 m tmpl hmt σ.fns.length (σ.fns.length + 1)
              ⟨(wrapArity cfg a).1, Option.none, (wrapArity cfg a).2, σ.params.map (·.1) ++ σ.shadow, true⟩
              ⟨(wrapArity cfg b).1, Option.none, (wrapArity cfg b).2, σ.params.map (·.1) ++ σ.shadow, true⟩
              (by simp) rfl hvA2 (by simp) rfl hv2 sg σ' hr
            refine ⟨π3, ?_, hP⟩
            have hcode : lambdaTemplate (digitsOfNat k) arEa Ba ++ functionPop "A" :: (lambdaTemplate (digitsOfNat k1) arEb Bb ++ functionPop "B" :: tmpl) =
                (lambdaTemplate (digitsOfNat k) arEa Ba ++ [assign1 (nm "function_A") pop1pos]) ++
                ((lambdaTemplate (digitsOfNat k1) arEb Bb ++ [assign1 (nm "function_B") pop1pos]) ++ tmpl) := by
              simp [functionPop]
            rw [hcode, execPL_append, he1]
            simp only
            rw [execPL_append, he2]
            exact he3
  | .tri _ _ _ _, _, _, _, _, _ => by
      intro A σ π sg σ' h hr
      simp [execS] at hr

theorem simL (cfg : Cfg) (env : TEnv) (hE : cfg.elements = env.elements) (hM : ModsOK env.modifiers) (n : Nat) (ih : ∀ m, m < n → SimAt cfg env m) :
    ∀ (l : List Structure), fragL env.elements l = true → ∀ (k : Nat) (code : List PyStmt) (k' : Nat),
      transpileL env k l = .ok (code, k') → Sims cfg env n l code
  | [], _, k, code, k', ht => by
      simp [transpileL] at ht; obtain ⟨h1, _⟩ := ht; subst h1
      exact sims_nil cfg n
  | s :: rest, hf, k, code, k', ht => by
      simp only [fragL, Bool.and_eq_true] at hf
      simp only [transpileL] at ht
      cases hs : transpileS env k s with
      | error e => simp [hs] at ht
      | ok r1 =>
        obtain ⟨a, k1⟩ := r1
        cases hr : transpileL env k1 rest with
        | error e => simp [hs, hr] at ht
        | ok r2 =>
          obtain ⟨b, k2⟩ := r2
          simp [hs, hr] at ht; obtain ⟨h1, _⟩ := ht; subst h1
          exact sims_cons cfg n s rest a b (simS cfg env hE hM n ih s hf.1 k a k1 hs) (simL cfg env hE hM n ih rest hf.2 k1 b k2 hr)

theorem simLL (cfg : Cfg) (env : TEnv) (hE : cfg.elements = env.elements) (hM : ModsOK env.modifiers) (n : Nat) (ih : ∀ m, m < n → SimAt cfg env m) :
    ∀ (bs : List (List Structure)), fragLL env.elements bs = true → ∀ (k : Nat) (cs : List (List PyStmt)) (k' : Nat),
      transpileLL env k bs = .ok (cs, k') → All2 (Sims cfg env n) bs cs
  | [], _, k, cs, k', ht => by
      simp [transpileLL] at ht; obtain ⟨h1, _⟩ := ht; subst h1
      exact .nil
  | l :: rest, hf, k, cs, k', ht => by
      simp only [fragLL, Bool.and_eq_true] at hf
      simp only [transpileLL] at ht
      cases hl : transpileL env k l with
      | error e => simp [hl] at ht
      | ok r1 =>
        obtain ⟨a, k1⟩ := r1
        cases hr : transpileLL env k1 rest with
        | error e => simp [hl, hr] at ht
        | ok r2 =>
          obtain ⟨b, k2⟩ := r2
          simp [hl, hr] at ht; obtain ⟨h1, _⟩ := ht; subst h1
          exact .cons (sims_orPass' (simL cfg env hE hM n ih l hf.1 k a k1 hl)) (simLL cfg env hE hM n ih rest hf.2 k1 b k2 hr)
end

/-- **every transpiled program of the fragment simulates, at every fuel** -/
theorem simAt_all (cfg : Cfg) (env : TEnv) (hE : cfg.elements = env.elements) (hM : ModsOK env.modifiers) : ∀ n, SimAt cfg env n := by
  intro n
  induction n using Nat.strongRecOn with
  | ind n ih =>
    intro prog k code k' hf ht
    exact simL cfg env hE hM n ih prog hf k code k' ht

end Vy.Sem
