import VyxalModel.Model.Cartesian
import Mathlib.Data.List.Range
/-!
# The diagonal walk of `Ẋ` yields, diagonal by diagonal, exactly the pairs whose indices exist

Invariant on `lhs_max` / `rhs_max`: `0` (falsy: nothing known) or at least the last index (`len ≤ max + 1`) — both the initial
`len - 1` and the "index past the end" written after a failed `has_ind` satisfy it, and it is all the skips and breaks need.
-/
namespace Ls

/-- index `i` of diagonal `d` is a pair that exists -/
def cpValid (l r : List Int) (d i : Nat) : Bool := decide (i < l.length) && decide (d - i < r.length)

def cpPair (l r : List Int) (d i : Nat) : Int × Int := (l.getD i 0, r.getD (d - i) 0)

/-- the pairs of diagonal `d`, by increasing left index -/
def diagPairs (l r : List Int) (d : Nat) : List (Int × Int) :=
  ((List.range (d + 1)).filter (cpValid l r d)).map (cpPair l r d)

def MaxOK (len m : Nat) : Prop := m = 0 ∨ len ≤ m + 1

theorem filter_range'_none (p : Nat → Bool) (s n : Nat) (h : ∀ x, s ≤ x → p x = false) : (List.range' s n).filter p = [] := by
  rw [List.filter_eq_nil_iff]
  intro x hx
  rw [List.mem_range'_1] at hx
  simp [h x hx.1]

theorem cpInner_spec (l r : List Int) (d : Nat) : ∀ (n s lm rm : Nat) (t : Bool) (acc : List (Int × Int)),
    s + n ≤ d + 1 → MaxOK l.length lm → MaxOK r.length rm →
    ∃ lm' rm', cpInner l r d (List.range' s n) lm rm t acc
        = (lm', rm', t || !((List.range' s n).filter (cpValid l r d)).isEmpty,
           acc ++ ((List.range' s n).filter (cpValid l r d)).map (cpPair l r d))
      ∧ MaxOK l.length lm' ∧ MaxOK r.length rm' := by
  intro n
  induction n with
  | zero => intro s lm rm t acc _ hl hr; exact ⟨lm, rm, by simp [cpInner], hl, hr⟩
  | succ n ih =>
    intro s lm rm t acc hs hl hr
    have hsd : s ≤ d := by omega
    rw [List.range'_succ]
    simp only [cpInner]
    by_cases h1 : rm ≠ 0 ∧ d - s > rm
    · -- skipped: `right` is past the end of `rhs`
      rw [if_pos h1]
      have hv : cpValid l r d s = false := by
        have : r.length ≤ rm + 1 := by rcases hr with h | h; exact absurd h h1.1; exact h
        simp [cpValid]; intro _; omega
      obtain ⟨lm', rm', he, hl', hr'⟩ := ih (s + 1) lm rm t acc (by omega) hl hr
      exact ⟨lm', rm', by rw [he]; simp [List.filter_cons, hv], hl', hr'⟩
    · rw [if_neg h1]
      by_cases h2 : ¬ (d - s < r.length)
      · rw [if_pos h2]
        have hv : cpValid l r d s = false := by simp [cpValid]; intro _; omega
        obtain ⟨lm', rm', he, hl', hr'⟩ := ih (s + 1) lm (d - s) t acc (by omega) hl (Or.inr (by omega))
        exact ⟨lm', rm', by rw [he]; simp [List.filter_cons, hv], hl', hr'⟩
      · rw [if_neg h2]
        have h2' : d - s < r.length := by omega
        by_cases h3 : lm ≠ 0 ∧ s > lm
        · -- break: `left` and everything after it is past the end of `lhs`
          rw [if_pos h3]
          have hlen : l.length ≤ lm + 1 := by rcases hl with h | h; exact absurd h h3.1; exact h
          have hnone : (s :: List.range' (s + 1) n).filter (cpValid l r d) = [] := by
            have := filter_range'_none (cpValid l r d) s (n + 1) (by
              intro x hx; simp [cpValid]; intro hxl; omega)
            rwa [List.range'_succ] at this
          exact ⟨lm, rm, by rw [hnone]; simp, hl, hr⟩
        · rw [if_neg h3]
          by_cases h4 : ¬ (s < l.length)
          · rw [if_pos h4]
            have hnone : (s :: List.range' (s + 1) n).filter (cpValid l r d) = [] := by
              have := filter_range'_none (cpValid l r d) s (n + 1) (by
                intro x hx; simp [cpValid]; intro hxl; omega)
              rwa [List.range'_succ] at this
            exact ⟨s, rm, by rw [hnone]; simp, Or.inr (by omega), hr⟩
          · rw [if_neg h4]
            have h4' : s < l.length := by omega
            have hv : cpValid l r d s = true := by simp [cpValid, h4', h2']
            obtain ⟨lm', rm', he, hl', hr'⟩ := ih (s + 1) lm rm true (acc ++ [cpPair l r d s]) (by omega) hl hr
            refine ⟨lm', rm', ?_, hl', hr'⟩
            have : (l.getD s 0, r.getD (d - s) 0) = cpPair l r d s := rfl
            rw [this, he]
            simp [List.filter_cons, hv]

/-- restricting the range of `left` to `[lstart, lend]` loses no existing pair -/
theorem filter_window (p : Nat → Bool) (d a b : Nat) (h : ∀ i, i ≤ d → p i = true → a ≤ i ∧ i ≤ b) (hb : b ≤ d) :
    (List.range' a (b + 1 - a)).filter p = (List.range (d + 1)).filter p := by
  rw [List.range_eq_range']
  by_cases hab : a ≤ b + 1
  · have e1 : List.range' 0 (d + 1) = List.range' 0 a ++ List.range' a (b + 1 - a) ++ List.range' (b + 1) (d - b) := by
      have s1 : ∀ s m n, List.range' s (m + n) = List.range' s m ++ List.range' (s + m) n :=
        fun s m n => (List.range'_append_1 ..).symm
      have hd : d + 1 = a + ((b + 1 - a) + (d - b)) := by omega
      rw [hd, s1, s1, List.append_assoc]
      have h0 : 0 + a = a := by omega
      have h1 : 0 + a + (b + 1 - a) = b + 1 := by omega
      rw [h0] at h1 ⊢
      rw [h1]
    rw [e1, List.filter_append, List.filter_append]
    have z1 : (List.range' 0 a).filter p = [] := by
      rw [List.filter_eq_nil_iff]; intro x hx; rw [List.mem_range'_1] at hx
      intro hp; have := (h x (by omega) hp).1; omega
    have z2 : (List.range' (b + 1) (d - b)).filter p = [] := by
      rw [List.filter_eq_nil_iff]; intro x hx; rw [List.mem_range'_1] at hx
      intro hp; have := (h x (by omega) hp).2; omega
    rw [z1, z2]; simp
  · have e0 : b + 1 - a = 0 := by omega
    rw [e0]
    symm
    simp only [List.range'_zero, List.filter_nil]
    rw [List.filter_eq_nil_iff]; intro x hx; rw [List.mem_range'_1] at hx
    intro hp; have := h x (by omega) hp; omega

theorem diagPairs_nonempty_iff (l r : List Int) (hl : l ≠ []) (hr : r ≠ []) (d : Nat) :
    ((List.range (d + 1)).filter (cpValid l r d)).isEmpty = false ↔ d + 2 ≤ l.length + r.length := by
  have hl' : 0 < l.length := List.length_pos_iff.mpr hl
  have hr' : 0 < r.length := List.length_pos_iff.mpr hr
  rw [Bool.eq_false_iff, ne_eq, List.isEmpty_iff, List.filter_eq_nil_iff]
  constructor
  · intro h
    by_contra hc
    apply h
    intro i hi
    simp [cpValid]; intro _; rw [List.mem_range] at hi; omega
  · intro h hall
    -- the pair (min d (|l|-1), d - that) exists
    have hi : min d (l.length - 1) ∈ List.range (d + 1) := by rw [List.mem_range]; omega
    have := hall _ hi
    simp [cpValid] at this
    omega

theorem cpOuter_spec (l r : List Int) (hl : l ≠ []) (hr : r ≠ []) : ∀ (f d lm rm : Nat) (acc : List (Int × Int)),
    l.length + r.length ≤ f + d → d + 1 ≤ l.length + r.length → MaxOK l.length lm → MaxOK r.length rm →
    acc = (List.range d).flatMap (diagPairs l r) →
    cpOuter l r f d lm rm acc = (List.range (l.length + r.length - 1)).flatMap (diagPairs l r) := by
  intro f
  induction f with
  | zero => intro d lm rm acc h1 h2; omega
  | succ f ih =>
    intro d lm rm acc h1 h2 hlm hrm hacc
    simp only [cpOuter]
    -- the window of `left`
    have hwin : (List.range' (if rm ≠ 0 then d - rm else 0) ((if lm ≠ 0 then min d lm else d) + 1 - (if rm ≠ 0 then d - rm else 0))).filter (cpValid l r d)
        = (List.range (d + 1)).filter (cpValid l r d) := by
      apply filter_window
      · intro i hid hv
        simp only [cpValid, Bool.and_eq_true, decide_eq_true_eq] at hv
        constructor
        · split
          · rename_i hne
            have : r.length ≤ rm + 1 := by rcases hrm with h | h; exact absurd h hne; exact h
            omega
          · omega
        · split
          · rename_i hne
            have : l.length ≤ lm + 1 := by rcases hlm with h | h; exact absurd h hne; exact h
            omega
          · exact hid
      · split <;> omega
    obtain ⟨lm', rm', he, hl', hr'⟩ := cpInner_spec l r d
      ((if lm ≠ 0 then min d lm else d) + 1 - (if rm ≠ 0 then d - rm else 0)) (if rm ≠ 0 then d - rm else 0) lm rm false acc
      (by split <;> split <;> omega) hlm hrm
    rw [he, hwin]
    simp only [Bool.false_or]
    have hacc' : acc ++ ((List.range (d + 1)).filter (cpValid l r d)).map (cpPair l r d) = (List.range (d + 1)).flatMap (diagPairs l r) := by
      have e : (List.range (d + 1)).flatMap (diagPairs l r) = (List.range d).flatMap (diagPairs l r) ++ diagPairs l r d := by
        rw [List.range_succ, List.flatMap_append]; simp
      rw [e, hacc]; rfl
    by_cases ht : ((List.range (d + 1)).filter (cpValid l r d)).isEmpty = false
    · have hd := (diagPairs_nonempty_iff l r hl hr d).mp ht
      simp only [ht, Bool.not_false, if_true]
      exact ih (d + 1) lm' rm' _ (by omega) (by omega) hl' hr' hacc'
    · have hte : ((List.range (d + 1)).filter (cpValid l r d)).isEmpty = true := by simpa using ht
      have hd : ¬ (d + 2 ≤ l.length + r.length) := fun h => ht ((diagPairs_nonempty_iff l r hl hr d).mpr h)
      have hde : d = l.length + r.length - 1 := by omega
      simp only [hte, Bool.not_true, if_false]
      rw [List.isEmpty_iff] at hte
      rw [hte, List.map_nil, List.append_nil, hacc, hde]
      simp

end Ls
