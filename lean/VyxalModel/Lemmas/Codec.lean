import VyxalModel.Model.Codec
/-! Round-trip lemmas for the positional codecs. -/
open Vy

theorem fromDigits_append (b : Nat) (xs : List Nat) (d : Nat) :
    fromDigits b (xs ++ [d]) = b * fromDigits b xs + d := by
  simp [fromDigits, List.foldl_append]

theorem digits_roundtrip (b : Nat) (hb : 2 ≤ b) (n : Nat) : fromDigits b (toDigits b n) = n := by
  induction n using Nat.strongRecOn with
  | _ n ih =>
    rw [toDigits]
    have h2 : ¬ b < 2 := by omega
    simp only [h2, dite_false]
    by_cases hn : n < b
    · simp [hn, fromDigits]
    · simp only [hn, if_false]
      rw [fromDigits_append, ih (n / b) (Nat.div_lt_self (by omega) (by omega))]
      exact Nat.div_add_mod n b

theorem digits_lt (b : Nat) (hb : 2 ≤ b) (n : Nat) : ∀ d ∈ toDigits b n, d < b := by
  induction n using Nat.strongRecOn with
  | _ n ih =>
    rw [toDigits]
    have h2 : ¬ b < 2 := by omega
    simp only [h2, dite_false]
    by_cases hn : n < b
    · simp [hn]
    · simp only [hn, if_false]
      intro d hd
      rcases List.mem_append.mp hd with hd | hd
      · exact ih (n / b) (Nat.div_lt_self (by omega) (by omega)) d hd
      · simp at hd; subst hd; exact Nat.mod_lt n (by omega)

theorem toDigits_ne_nil (b n : Nat) : toDigits b n ≠ [] := by
  rw [toDigits]
  split
  · simp
  · split <;> simp

/-- no leading zero digit, except for 0 itself -/
theorem digits_head (b : Nat) (hb : 2 ≤ b) (n : Nat) (hn : 0 < n) : (toDigits b n).head? ≠ some 0 := by
  induction n using Nat.strongRecOn with
  | _ n ih =>
    rw [toDigits]
    have h2 : ¬ b < 2 := by omega
    simp only [h2, dite_false]
    by_cases hlt : n < b
    · simp only [hlt, if_true, List.head?_cons, ne_eq, Option.some.injEq]; omega
    · simp only [hlt, if_false]
      have hq : 0 < n / b := Nat.div_pos (by omega) (by omega)
      have := ih (n / b) (Nat.div_lt_self (by omega) (by omega)) hq
      cases hd : toDigits b (n / b) with
      | nil => exact absurd hd (toDigits_ne_nil b (n / b))
      | cons x xs => rw [hd] at this; simpa using this

theorem getD_mem (α : Str) (i : Nat) (hi : i < α.length) : α.getD i 0 = α[i] := by
  simp [List.getD_eq_getElem?_getD, List.getElem?_eq_getElem hi]

/-- `from_base_alphabet` on characters of the alphabet is Horner on their indices -/
theorem fromAlphabet_map (α : Str) (ds : List Nat) (hd : ∀ d ∈ ds, d < α.length) (acc : Nat) :
    (ds.map (fun i => α.getD i 0)).foldl (alphaStep α) (some acc)
    = some (ds.foldl (fun r d => α.length * r + α.idxOf (α.getD d 0)) acc) := by
  induction ds generalizing acc with
  | nil => rfl
  | cons d ds ih =>
    have hdl : d < α.length := hd d (by simp)
    have hmem : α.getD d 0 ∈ α := by
      rw [getD_mem α d hdl]; exact List.getElem_mem hdl
    have hc : α.contains (α.getD d 0) = true := by simpa using hmem
    simp only [List.map_cons, List.foldl_cons, alphaStep, hc, if_true]
    exact ih (fun x hx => hd x (by simp [hx])) _

theorem idxOf_getD (α : Str) (hn : α.Nodup) (i : Nat) (hi : i < α.length) : α.idxOf (α.getD i 0) = i := by
  rw [getD_mem α i hi]
  exact hn.idxOf_getElem i hi

theorem fromAlphabet_digits (α : Str) (hn : α.Nodup) (ds : List Nat) (hd : ∀ d ∈ ds, d < α.length) :
    fromAlphabet α (ds.map (fun i => α.getD i 0)) = some (fromDigits α.length ds) := by
  unfold fromAlphabet
  rw [fromAlphabet_map α ds hd 0]
  congr 1
  unfold fromDigits
  have : ∀ (acc : Nat), ds.foldl (fun r d => α.length * r + α.idxOf (α.getD d 0)) acc
      = ds.foldl (fun r d => α.length * r + d) acc := by
    induction ds with
    | nil => intro acc; rfl
    | cons d ds ih =>
      intro acc
      simp only [List.foldl_cons]
      rw [idxOf_getD α hn d (hd d (by simp))]
      exact ih (fun x hx => hd x (by simp [hx])) _
  exact this 0

/-- compress-then-decompress of a number over any duplicate-free alphabet of at least two symbols -/
theorem alphabet_roundtrip (α : Str) (hn : α.Nodup) (h2 : 2 ≤ α.length) (n : Nat) :
    fromAlphabet α (toAlphabet α n) = some n := by
  unfold toAlphabet
  rw [fromAlphabet_digits α hn _ (digits_lt α.length h2 n), digits_roundtrip α.length h2 n]

/-! ### the `τ` loop -/

theorem fromDigits_cons (b d : Nat) (ds : List Nat) : fromDigits b (d :: ds) = d * b ^ ds.length + fromDigits b ds := by
  have gen : ∀ (ds : List Nat) (acc : Nat), ds.foldl (fun r d => b * r + d) acc = acc * b ^ ds.length + ds.foldl (fun r d => b * r + d) 0 := by
    intro ds
    induction ds with
    | nil => intro acc; simp
    | cons x xs ih =>
      intro acc
      simp only [List.foldl_cons, List.length_cons]
      rw [ih (b * acc + x), ih (b * 0 + x)]
      simp only [Nat.mul_zero, Nat.zero_add, Nat.pow_succ]
      rw [Nat.add_mul, Nat.add_assoc]
      congr 1
      rw [Nat.mul_comm b acc, Nat.mul_assoc, Nat.mul_comm b]
  unfold fromDigits
  simp only [List.foldl_cons, Nat.mul_zero, Nat.zero_add]
  exact gen ds d

theorem toBaseLoop_length (b e n : Nat) : (toBaseLoop b e n).length = e + 1 := by
  induction e generalizing n with
  | zero => rfl
  | succ e ih => simp [toBaseLoop, ih]

/-- with an exponent that is not too small (`n < b^(e+1)`), the loop yields the digits of `n`: they are
    all `< b` and Horner gives `n` back.  An over-estimate of `e` only produces leading zeros. -/
theorem toBaseLoop_spec (b : Nat) (hb : 2 ≤ b) (e n : Nat) (he : n < b ^ (e + 1)) :
    fromDigits b (toBaseLoop b e n) = n ∧ ∀ d ∈ toBaseLoop b e n, d < b := by
  induction e generalizing n with
  | zero =>
    simp only [Nat.zero_add, Nat.pow_one] at he
    simp [toBaseLoop, fromDigits, he]
  | succ e ih =>
    have hpos : 0 < b ^ (e + 1) := Nat.pow_pos (by omega)
    have hrem : n % b ^ (e + 1) < b ^ (e + 1) := Nat.mod_lt n hpos
    obtain ⟨h1, h2⟩ := ih (n % b ^ (e + 1)) hrem
    refine ⟨?_, ?_⟩
    · rw [toBaseLoop, fromDigits_cons, toBaseLoop_length, h1]
      rw [Nat.mul_comm]; exact Nat.div_add_mod n (b ^ (e + 1))
    · intro d hd
      simp only [toBaseLoop, List.mem_cons] at hd
      rcases hd with rfl | hd
      · apply Nat.div_lt_of_lt_mul
        rw [Nat.pow_succ] at he
        exact he
      · exact h2 d hd
