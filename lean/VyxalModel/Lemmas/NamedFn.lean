import VyxalModel.Lemmas.Closure
/-! # Named functions: the definition, the parameter prologue, the call -/
namespace Vy.Sem
open Vy PyAst

variable {env : TEnv} {A : Option Val}

/-! ### `pop` / `wrapify` on any list variable of the running frame -/

theorem eval_pop_var (cfg : Cfg) (n : Nat) (π : PSt) (x : String) (st : List Val)
    (hx : π.getVar (x, []) = some (.list st.reverse)) (hret : π.retain = false) (k : Nat)
    (rest : List PyExpr) (kw : List (String × PyExpr)) :
    evalE cfg n (.call (.name "pop") (.name x :: .cint (k : Int) :: rest) kw) π =
      .ok (popVal k (popN k st π.inputs).1,
           ({ π with inputs := (popN k st π.inputs).2.2 }).setVar (x, []) (.list (popN k st π.inputs).2.1.reverse)) := by
  have hk : ¬ ((k : Int) < 0) := by omega
  simp only [evalE, specialOf_pop, evalSpecial, asNat, R_ok_bind, hk, ↓reduceIte, Int.toNat_natCast, hx, popPy_rev, hret]
  simp only [popVal]
  split <;> simp_all

theorem eval_wrapify_var (cfg : Cfg) (n : Nat) (π π1 : PSt) (x : String) (st : List Val) (ke : PyExpr) (k : Nat)
    (hke : evalE cfg n ke π = .ok (.int k, π1))
    (hx : π1.getVar (x, []) = some (.list st.reverse)) (hret : π1.retain = false)
    (rest : List PyExpr) (kw : List (String × PyExpr)) :
    evalE cfg n (.call (.name "wrapify") (.name x :: ke :: rest) kw) π =
      .ok (.list (popN k st π1.inputs).1,
           ({ π1 with inputs := (popN k st π1.inputs).2.2 }).setVar (x, []) (.list (popN k st π1.inputs).2.1.reverse)) := by
  have hk : ¬ ((k : Int) < 0) := by omega
  simp only [evalE, specialOf_wrapify, evalSpecial, hke, asNat, R_ok_bind, hk, ↓reduceIte, Int.toNat_natCast, hx, popPy_rev, hret]

/-! ### the parameter prologue -/

/-- the callee's frame while the parameters are being popped: `arg_stack` is the caller's stack, `parameters` the
    values collected so far, the named parameters are `VAR_` locals; nothing else differs from the caller's state -/
structure PRel (π0 : PSt) (σ : RSt) (acc : List Val) (loc : List (Str × Val)) (π : PSt) : Prop where
  depth : π.depth = π0.depth + 1
  arg : lookupP ("arg_stack", []) π.locals = some (.list σ.stack.reverse)
  par : lookupP ("parameters", []) π.locals = some (.list acc)
  inputs : π.inputs = σ.inputs
  vars : ∀ x : Str, lookupP ("VAR_", x) π.locals = lookupKV x loc
  clean : ∀ h : String, h ∉ junkNames → lookupP (h, []) π.locals = Option.none
  same : { π with locals := [], inputs := [] } = { π0 with locals := [], depth := π0.depth + 1, inputs := [] }

theorem getVar_local (π : PSt) (k : PKey) (v : Val) (hd : π.depth ≠ 0) (h : lookupP k π.locals = some v) :
    π.getVar k = some v := by
  simp [PSt.getVar, hd, h]

theorem setVar_pos (π : PSt) (k : PKey) (v : Val) (hd : π.depth ≠ 0) :
    π.setVar k v = { π with locals := setP k v π.locals } := by
  simp [PSt.setVar, hd]

/-- the state after popping `k` values from `arg_stack` -/
def popArg (π : PSt) (st : List Val) (k : Nat) : PSt :=
  ({ π with inputs := (popN k st π.inputs).2.2 }).setVar ("arg_stack", []) (.list (popN k st π.inputs).2.1.reverse)

theorem PRel.popArg {π0 π : PSt} {σ : RSt} {acc : List Val} {loc : List (Str × Val)} (h : PRel π0 σ acc loc π) (k : Nat) :
    PRel π0 (σ.popK k).2 acc loc (popArg π σ.stack k) := by
  have hd : π.depth ≠ 0 := by rw [h.depth]; omega
  have hd' : ({ π with inputs := (popN k σ.stack π.inputs).2.2 } : PSt).depth ≠ 0 := hd
  unfold Vy.Sem.popArg
  rw [setVar_pos _ _ _ hd']
  refine ⟨h.depth, ?_, ?_, ?_, ?_, ?_, ?_⟩
  · simp [lookupP_setP_eq, RSt.popK, h.inputs]
  · simp only; rw [lookupP_setP_ne _ _ _ _ (by decide)]; exact h.par
  · simp [RSt.popK, h.inputs]
  · intro x; simp only; rw [lookupP_setP_ne _ _ _ _ (by intro he; injection he with h1 _; exact absurd h1 (by decide))]; exact h.vars x
  · intro hn hj; simp only
    rw [lookupP_setP_ne _ _ _ _ (by intro he; injection he with h1 _; subst h1; exact hj (by decide))]; exact h.clean hn hj
  · have := h.same; simpa using this

theorem PRel.setPar {π0 π : PSt} {σ : RSt} {acc : List Val} {loc : List (Str × Val)} (h : PRel π0 σ acc loc π) (acc' : List Val) :
    PRel π0 σ acc' loc (π.setVar ("parameters", []) (.list acc')) := by
  have hd : π.depth ≠ 0 := by rw [h.depth]; omega
  rw [setVar_pos _ _ _ hd]
  refine ⟨h.depth, ?_, ?_, h.inputs, ?_, ?_, ?_⟩
  · simp only; rw [lookupP_setP_ne _ _ _ _ (by decide)]; exact h.arg
  · simp [lookupP_setP_eq]
  · intro x; simp only; rw [lookupP_setP_ne _ _ _ _ (by intro he; injection he with h1 _; exact absurd h1 (by decide))]; exact h.vars x
  · intro hn hj; simp only
    rw [lookupP_setP_ne _ _ _ _ (by intro he; injection he with h1 _; subst h1; exact hj (by decide))]; exact h.clean hn hj
  · have := h.same; simpa using this

theorem PRel.setLoc {π0 π : PSt} {σ : RSt} {acc : List Val} {loc : List (Str × Val)} (h : PRel π0 σ acc loc π) (s : Str) (v : Val) :
    PRel π0 σ acc (setKV s v loc) (π.setVar ("VAR_", s) v) := by
  have hd : π.depth ≠ 0 := by rw [h.depth]; omega
  rw [setVar_pos _ _ _ hd]
  refine ⟨h.depth, ?_, ?_, h.inputs, ?_, ?_, ?_⟩
  · simp only; rw [lookupP_setP_ne _ _ _ _ (by intro he; injection he with h1 _; exact absurd h1 (by decide))]; exact h.arg
  · simp only; rw [lookupP_setP_ne _ _ _ _ (by intro he; injection he with h1 _; exact absurd h1 (by decide))]; exact h.par
  · intro x; simp only
    by_cases hx : x = s
    · subst hx; rw [lookupP_setP_eq, lookupKV_setKV_eq]
    · rw [lookupP_setP_ne _ _ _ _ (by intro he; injection he with _ h2; exact hx h2), lookupKV_setKV_ne _ _ _ _ hx]; exact h.vars x
  · intro hn hj; simp only
    rw [lookupP_setP_ne _ _ _ _ (by intro he; injection he with h1 _; subst h1; exact hj (by decide))]; exact h.clean hn hj
  · have := h.same; simpa using this

theorem PRel.retain {π0 π : PSt} {σ : RSt} {acc : List Val} {loc : List (Str × Val)} (h : PRel π0 σ acc loc π) : π.retain = π0.retain :=
  by
  have := congrArg PSt.retain h.same; exact this

theorem eval_pop1_arg (cfg : Cfg) (n : Nat) {π0 π : PSt} {σ : RSt} {acc : List Val} {loc : List (Str × Val)}
    (h : PRel π0 σ acc loc π) (hret : π0.retain = false) :
    evalE cfg n (pop1kw (nm "arg_stack")) π = .ok (σ.pop1.1, popArg π σ.stack 1) ∧
      PRel π0 σ.pop1.2 acc loc (popArg π σ.stack 1) := by
  have hd : π.depth ≠ 0 := by rw [h.depth]; omega
  have hr : π.retain = false := by rw [h.retain, hret]
  have harg : π.getVar ("arg_stack", []) = some (.list σ.stack.reverse) := getVar_local _ _ _ hd h.arg
  have hp := eval_pop_var cfg n π "arg_stack" σ.stack harg hr 1 [] kwCtx
  have h1 := h.popArg 1
  rw [(popK_one σ).2] at h1
  refine ⟨?_, h1⟩
  have hv : popVal 1 (popN 1 σ.stack π.inputs).1 = σ.pop1.1 := by
    have := (popK_one σ).1
    simp only [RSt.popK] at this
    rw [h.inputs, this]; rfl
  simp only [pop1kw, nm]
  rw [← hv]; exact hp

/-- one parameter statement against one step of `bindParams` -/
theorem exec_params (cfg : Cfg) (n : Nat) (π0 : PSt) (hret : π0.retain = false) :
    ∀ (ps : List Str) (acc : List Val) (loc : List (Str × Val)) (σ : RSt) (π : PSt), PRel π0 σ acc loc π →
      ∀ (parameters : List Val) (locals : List (Str × Val)) (σ1 : RSt),
        bindParams ps acc loc σ = .ok (parameters, locals, σ1) →
        ∃ π1, execPL cfg n (ps.map paramStmt) π = .ok (.normal, π1) ∧ PRel π0 σ1 parameters locals π1
  | [], acc, loc, σ, π, h, parameters, locals, σ1, hb => by
      simp [bindParams] at hb
      obtain ⟨h1, h2, h3⟩ := hb; subst h1; subst h2; subst h3
      exact ⟨π, by simp [execPL], h⟩
  | p :: ps, acc, loc, σ, π, h, parameters, locals, σ1, hb => by
      have hd : π.depth ≠ 0 := by rw [h.depth]; omega
      have hr : π.retain = false := by rw [h.retain, hret]
      have harg : π.getVar ("arg_stack", []) = some (.list σ.stack.reverse) := getVar_local _ _ _ hd h.arg
      unfold bindParams at hb
      simp only [List.map_cons, execPL_cons]
      by_cases hdig : p ≠ [] ∧ p.all isDigit = true
      · rw [if_pos hdig] at hb
        have hw := eval_wrapify_var cfg n π π "arg_stack" σ.stack (.cint (natOfDigits p)) (natOfDigits p)
          (by simp [evalE]) harg hr [ctxE] []
        have hP1 := h.popArg (natOfDigits p)
        have hpar : (popArg π σ.stack (natOfDigits p)).getVar ("parameters", []) = some (.list acc) :=
          getVar_local _ _ _ (by rw [hP1.depth]; omega) hP1.par
        have hP2 := hP1.setPar (acc ++ (σ.popK (natOfDigits p)).1)
        obtain ⟨π1, he, hP⟩ := exec_params cfg n π0 hret ps _ _ _ _ hP2 parameters locals σ1 hb
        refine ⟨π1, ?_, hP⟩
        have hs : execPS cfg n (paramStmt p) π = .ok (.normal,
            (popArg π σ.stack (natOfDigits p)).setVar ("parameters", []) (.list (acc ++ (σ.popK (natOfDigits p)).1))) := by
          unfold paramStmt
          rw [if_pos hdig]
          simp only [execPS, nm, nameKey, callN]
          rw [hw]
          simp only [R_ok_bind]
          change (match (popArg π σ.stack (natOfDigits p)).getVar ("parameters", []), Val.list (popN (natOfDigits p) σ.stack π.inputs).1 with
            | some (.list xs), .list ys => _
            | _, _ => _) = _
          rw [hpar]
          simp [RSt.popK, h.inputs, Vy.Sem.popArg]
        rw [hs]; exact he
      · rw [if_neg hdig] at hb
        by_cases hstar : p = [cStar]
        · rw [if_pos hstar] at hb
          obtain ⟨hpop, hP1⟩ := eval_pop1_arg cfg n h hret
          cases hv : σ.pop1.1 with
          | int i =>
            simp only [hv] at hb
            cases hk : toNatArity i with
            | error e => simp [hk] at hb
            | ok kk =>
              simp only [hk, R_ok_bind] at hb
              have hik : i = (kk : Int) := by
                unfold toNatArity at hk
                split at hk
                · simp at hk
                · simp at hk; omega
              rw [hv, hik] at hpop
              have hd1 : (popArg π σ.stack 1).depth ≠ 0 := by rw [hP1.depth]; omega
              have hw := eval_wrapify_var cfg n π (popArg π σ.stack 1) "arg_stack" σ.pop1.2.stack (pop1kw (nm "arg_stack")) kk hpop
                (getVar_local _ _ _ hd1 hP1.arg) (by rw [hP1.retain, hret]) [] kwCtx
              have hP2 := hP1.popArg kk
              have hpar : (popArg (popArg π σ.stack 1) σ.pop1.2.stack kk).getVar ("parameters", []) = some (.list acc) :=
                getVar_local _ _ _ (by rw [hP2.depth]; omega) hP2.par
              have hP3 := hP2.setPar (acc ++ (σ.pop1.2.popK kk).1)
              obtain ⟨π1, he, hP⟩ := exec_params cfg n π0 hret ps _ _ _ _ hP3 parameters locals σ1 hb
              refine ⟨π1, ?_, hP⟩
              have hs : execPS cfg n (paramStmt p) π = .ok (.normal,
                  (popArg (popArg π σ.stack 1) σ.pop1.2.stack kk).setVar ("parameters", []) (.list (acc ++ (σ.pop1.2.popK kk).1))) := by
                unfold paramStmt
                rw [if_neg hdig, if_pos hstar]
                simp only [execPS, nm, nameKey]
                simp only [nm] at hw
                rw [hw]
                simp only [R_ok_bind]
                change (match (popArg (popArg π σ.stack 1) σ.pop1.2.stack kk).getVar ("parameters", []), Val.list (popN kk σ.pop1.2.stack (popArg π σ.stack 1).inputs).1 with
                  | some (.list xs), .list ys => _
                  | _, _ => _) = _
                have e : (σ.pop1.2.popK kk).1 = (popN kk σ.pop1.2.stack (popArg π σ.stack 1).inputs).1 := by
                  rw [hP1.inputs]; rfl
                rw [hpar, e]
                rfl
              rw [hs]; exact he
          | list l => simp [hv] at hb
          | fn f => simp [hv] at hb
          | none => simp [hv] at hb
        · rw [if_neg hstar] at hb
          obtain ⟨hpop, hP1⟩ := eval_pop1_arg cfg n h hret
          have hP2 := hP1.setLoc (sanitise p) σ.pop1.1
          obtain ⟨π1, he, hP⟩ := exec_params cfg n π0 hret ps _ _ _ _ hP2 parameters locals σ1 hb
          refine ⟨π1, ?_, hP⟩
          have hs : execPS cfg n (paramStmt p) π = .ok (.normal, (popArg π σ.stack 1).setVar ("VAR_", sanitise p) σ.pop1.1) := by
            unfold paramStmt
            rw [if_neg hdig, if_neg hstar]
            simp only [assign1, execPS, hpop, R_ok_bind, assignTo]
          rw [hs]; exact he

/-- popping parameters touches the caller's stack and input scopes only -/
theorem bindParams_frame : ∀ (ps : List Str) (acc : List Val) (loc : List (Str × Val)) (σ : RSt) (parameters : List Val)
    (locals : List (Str × Val)) (σ1 : RSt), bindParams ps acc loc σ = .ok (parameters, locals, σ1) →
    σ1 = { σ with stack := σ1.stack, inputs := σ1.inputs }
  | [], acc, loc, σ, parameters, locals, σ1, hb => by
      simp [bindParams] at hb; obtain ⟨_, _, h3⟩ := hb; subst h3; rfl
  | p :: ps, acc, loc, σ, parameters, locals, σ1, hb => by
      unfold bindParams at hb
      by_cases hdig : p ≠ [] ∧ p.all isDigit = true
      · rw [if_pos hdig] at hb
        have := bindParams_frame ps _ _ _ _ _ _ hb
        rw [this]; simp [RSt.popK]
      · rw [if_neg hdig] at hb
        by_cases hstar : p = [cStar]
        · rw [if_pos hstar] at hb
          cases hv : σ.pop1.1 with
          | int i =>
            simp only [hv] at hb
            cases hk : toNatArity i with
            | error e => simp [hk] at hb
            | ok kk =>
              simp only [hk, R_ok_bind] at hb
              have := bindParams_frame ps _ _ _ _ _ _ hb
              rw [this]; simp only [RSt.popK, RSt.pop1]; split <;> rfl
          | list l => simp [hv] at hb
          | fn f => simp [hv] at hb
          | none => simp [hv] at hb
        · rw [if_neg hstar] at hb
          have := bindParams_frame ps _ _ _ _ _ _ hb
          rw [this]; simp only [RSt.pop1]; split <;> rfl

/-- the callee's frame right after `parameters = []` -/
theorem prel_init {σ : RSt} {π0 : PSt} (h : Rel env A σ π0) (selfV arV : Val) :
    PRel π0 σ [] [] ((calleePi π0 (.list σ.stack.reverse) selfV arV).setVar ("parameters", []) (.list [])) := by
  have hd : (calleePi π0 (.list σ.stack.reverse) selfV arV).depth ≠ 0 := by simp [calleePi]
  rw [setVar_pos _ _ _ hd]
  refine ⟨rfl, ?_, ?_, h.inputs, ?_, ?_, rfl⟩
  · simp [calleePi, initFrame, setP, lookupP]
  · simp [calleePi, initFrame, setP, lookupP]
  · intro x; simp [calleePi, initFrame, setP, lookupP, lookupKV]
  · intro hn hj
    have h1 : hn ≠ "arg_stack" := by intro he; subst he; exact hj (by decide)
    have h2 : hn ≠ "self" := by intro he; subst he; exact hj (by decide)
    have h3 : hn ≠ "arity" := by intro he; subst he; exact hj (by decide)
    have h4 : hn ≠ "parameters" := by intro he; subst he; exact hj (by decide)
    simp [calleePi, initFrame, setP, lookupP, h1.symm, h2.symm, h3.symm, h4.symm]

/-- the Python state inside a named function, after the prologue -/
def enterFnPi (π1 : PSt) (parameters : List Val) (thisV : Val) : PSt :=
  ({ π1.setVar ("stack", []) (.list parameters) with
      ctxVals := .list parameters :: π1.ctxVals, stacks := .list parameters :: π1.stacks,
      inputs := (parameters.reverse, 0) :: π1.inputs }).setVar ("this", []) thisV

theorem rel_enterFn {σ σ1 : RSt} {π0 π1 : PSt} (h : Rel env A σ π0) (parameters : List Val) (locals : List (Str × Val))
    (hfr : σ1 = { σ with stack := σ1.stack, inputs := σ1.inputs }) (hP : PRel π0 σ1 parameters locals π1) (thisV : Val) :
    Rel env (some (.list σ1.stack.reverse)) (enterFn σ σ1 parameters locals) (enterFnPi π1 parameters thisV) := by
  have hd : π1.depth ≠ 0 := by rw [hP.depth]; omega
  have hs := hP.same
  have e_ctx : π1.ctxVals = π0.ctxVals := by have := congrArg PSt.ctxVals hs; exact this
  have e_st : π1.stacks = π0.stacks := by have := congrArg PSt.stacks hs; exact this
  have e_fs : π1.fnStack = π0.fnStack := by have := congrArg PSt.fnStack hs; exact this
  have e_reg : π1.register = π0.register := by have := congrArg PSt.register hs; exact this
  have e_gh : π1.ghost = π0.ghost := by have := congrArg PSt.ghost hs; exact this
  have e_out : π1.out = π0.out := by have := congrArg PSt.out hs; exact this
  have e_pr : π1.printed = π0.printed := by have := congrArg PSt.printed hs; exact this
  have e_ret : π1.retain = π0.retain := by have := congrArg PSt.retain hs; exact this
  have e_ut : π1.useTop = π0.useTop := by have := congrArg PSt.useTop hs; exact this
  have e_fns : π1.fns = π0.fns := by have := congrArg PSt.fns hs; exact this
  have e_gl : π1.globals = π0.globals := by have := congrArg PSt.globals hs; exact this
  have f_ctx : σ1.ctxVals = σ.ctxVals := by rw [hfr]
  have f_st : σ1.stacks = σ.stacks := by rw [hfr]
  have f_fs : σ1.fnStack = σ.fnStack := by rw [hfr]
  have f_reg : σ1.register = σ.register := by rw [hfr]
  have f_gh : σ1.ghost = σ.ghost := by rw [hfr]
  have f_out : σ1.out = σ.out := by rw [hfr]
  have f_pr : σ1.printed = σ.printed := by rw [hfr]
  have f_fns : σ1.fns = σ.fns := by rw [hfr]
  have f_gl : σ1.globals = σ.globals := by rw [hfr]
  have f_fu : σ1.funcs = σ.funcs := by rw [hfr]
  have hloc : (enterFnPi π1 parameters thisV).locals = setP ("this", []) thisV (setP ("stack", []) (.list parameters) π1.locals) := by
    simp [enterFnPi, PSt.setVar, hd]
  have hglob : (enterFnPi π1 parameters thisV).globals = π0.globals := by
    simp [enterFnPi, PSt.setVar, hd, e_gl]
  have hdep : (enterFnPi π1 parameters thisV).depth = π0.depth + 1 := by
    simp [enterFnPi, hP.depth]
  have hdep0 : (enterFnPi π1 parameters thisV).depth ≠ 0 := by rw [hdep]; omega
  have hfns : (enterFnPi π1 parameters thisV).fns = π0.fns := by simp [enterFnPi, e_fns]
  refine ⟨by rw [hdep, h.depth]; rfl, by intro h0; simp [enterFn] at h0, ?_, ?_, ?_, ?_, ?_, ?_, ?_, ?_, ?_, ?_, ?_, ?_, ?_, ?_, ?_, ?_, ?_, ?_, ?_⟩
  · apply getVar_local _ _ _ hdep0
    rw [hloc, lookupP_setP_ne _ _ _ _ (by decide), lookupP_setP_eq]; simp [enterFn]
  · simp [enterFnPi, enterFn, e_ctx, f_ctx, h.ctxVals]
  · simp [enterFnPi, enterFn, hP.inputs]
  · simp [enterFnPi, enterFn, e_reg, f_reg, h.register]
  · simp [enterFnPi, enterFn, e_gh, f_gh, h.ghost]
  · simp [enterFnPi, enterFn, e_out, f_out, h.out]
  · simp [enterFnPi, enterFn, e_pr, f_pr, h.printed]
  · simp [enterFnPi, e_ret, h.retain]
  · simp [enterFnPi, e_ut, h.useTop]
  · simp [enterFnPi, enterFn, e_st, f_st, h.stacks]
  · simp [enterFnPi, enterFn, e_fs, f_fs, h.fnStack]
  · intro x hx hl hf
    rw [hglob]
    simp only [enterFn, f_gl, f_fu] at hf ⊢
    exact h.gvars x hx hl hf
  · intro _ x hx hl
    rw [hloc, lookupP_setP_ne _ _ _ _ (by intro he; injection he with h1 _; exact absurd h1 (by decide)),
      lookupP_setP_ne _ _ _ _ (by intro he; injection he with h1 _; exact absurd h1 (by decide))]
    simp only [enterFn]; exact hP.vars x
  · intro hn hj hst
    have hg := getVar_none_globals π0 (hn, []) (h.clean hn hj hst)
    have h1 : hn ≠ "this" := by intro he; subst he; exact hj (by decide)
    unfold PSt.getVar
    rw [if_neg hdep0, hloc, lookupP_setP_ne _ _ _ _ (by intro he; injection he with h1' _; exact h1 h1'),
      lookupP_setP_ne _ _ _ _ (by intro he; injection he with h1' _; exact hst h1'), hP.clean hn hj, hglob, hg]
  · rw [hfns, h.fnsLen]; simp [enterFn, f_fns]
  · intro id rf hid hlive
    rw [hfns]
    simp only [enterFn, f_fns] at hid
    exact h.lams id rf hid hlive
  · apply getVar_local _ _ _ hdep0
    rw [hloc, lookupP_setP_ne _ _ _ _ (by decide), lookupP_setP_ne _ _ _ _ (by decide)]; exact hP.arg
  · rw [hglob]; exact h.gArg
  · intro name ps body hf
    simp only [enterFn, f_fu] at hf
    rw [hglob, hfns]
    exact h.funcs name ps body hf

def fnPrologueTail (raw : Str) : List PyStmt :=
  [ assign1 stackE (.subscript (nm "parameters") (.slice Option.none Option.none Option.none)),
    ctxCall "context_values" "append" [.subscript (nm "parameters") (.slice Option.none Option.none Option.none)],
    ctxCall "stacks" "append" [stackE],
    ctxCall "inputs" "append" [.list [.subscript (nm "parameters") (.slice Option.none Option.none (some (.unary "USub" (.cint 1)))), .cint 0]],
    assign1 (nm "this") (.pname "VAR_" (sanitise raw)) ]

theorem fnDefPrologue_eq (raw : Str) (ps : List Str) :
    fnDefPrologue raw ps = assign1 (nm "parameters") (.list []) :: (ps.map paramStmt ++ fnPrologueTail raw) := by
  simp [fnDefPrologue, fnPrologueTail]

theorem exec_fnPrologueTail (cfg : Cfg) (n : Nat) (π1 : PSt) (hd : π1.depth ≠ 0) (raw : Str) (parameters : List Val)
    (hpar : lookupP ("parameters", []) π1.locals = some (.list parameters))
    (id : Nat) (hg : lookupP ("VAR_", sanitise raw) π1.globals = some (.fn id)) :
    ∃ thisV, execPL cfg n (fnPrologueTail raw) π1 = .ok (.normal, enterFnPi π1 parameters thisV) := by
  let πa : PSt := π1.setVar ("stack", []) (.list parameters)
  let πb : PSt := { πa with ctxVals := .list parameters :: πa.ctxVals }
  let πc : PSt := { πb with stacks := .list parameters :: πb.stacks }
  let πd : PSt := { πc with inputs := (parameters.reverse, 0) :: πc.inputs }
  have hla : πa.locals = setP ("stack", []) (.list parameters) π1.locals := by simp [πa, PSt.setVar, hd]
  have hda : πa.depth = π1.depth := by simp [πa]
  have hga : πa.globals = π1.globals := by simp [πa, PSt.setVar, hd]
  have hst : ∀ (π' : PSt), π'.locals = πa.locals → π'.depth = π1.depth →
      π'.getVar ("stack", []) = some (.list parameters) ∧ π'.getVar ("parameters", []) = some (.list parameters) := by
    intro π' hl hd'
    have hd0 : π'.depth ≠ 0 := by rw [hd']; exact hd
    constructor
    · apply getVar_local _ _ _ hd0; rw [hl, hla, lookupP_setP_eq]
    · apply getVar_local _ _ _ hd0; rw [hl, hla, lookupP_setP_ne _ _ _ _ (by decide)]; exact hpar
  have hp1 : π1.getVar ("parameters", []) = some (.list parameters) := getVar_local _ _ _ hd hpar
  have s1 : execPS cfg n (assign1 stackE (.subscript (nm "parameters") (.slice Option.none Option.none Option.none))) π1 =
      .ok (.normal, πa) := by
    simp [assign1, stackE, nm, execPS, evalE, hp1, subscriptV, assignTo, πa]
  have s2 : execPS cfg n (ctxCall "context_values" "append" [.subscript (nm "parameters") (.slice Option.none Option.none Option.none)]) πa =
      .ok (.normal, πb) := by
    simp [ctxCall, ctxE, nm, execPS, ctxListOp, evalE, (hst πa rfl hda).2, subscriptV, πb]
  have s3 : execPS cfg n (ctxCall "stacks" "append" [stackE]) πb = .ok (.normal, πc) := by
    simp [ctxCall, ctxE, stackE, execPS, ctxListOp, evalE, (hst πb rfl hda).1, πc]
  have s4 : execPS cfg n (ctxCall "inputs" "append"
      [.list [.subscript (nm "parameters") (.slice Option.none Option.none (some (.unary "USub" (.cint 1)))), .cint 0]]) πc =
      .ok (.normal, πd) := by
    simp [ctxCall, ctxE, nm, execPS, ctxListOp, evalE, evalArgs, isCtxName, (hst πc rfl hda).2, subscriptV, πd]
  have hthis : ∃ v, πd.getVar ("VAR_", sanitise raw) = some v := by
    have hd0 : πd.depth ≠ 0 := by show πa.depth ≠ 0; rw [hda]; exact hd
    unfold PSt.getVar
    rw [if_neg hd0]
    cases hl : lookupP ("VAR_", sanitise raw) πd.locals with
    | some v => exact ⟨v, rfl⟩
    | none => exact ⟨.fn id, by show lookupP _ πa.globals = _; rw [hga]; exact hg⟩
  obtain ⟨v, hv⟩ := hthis
  refine ⟨v, ?_⟩
  have s5 : execPS cfg n (assign1 (nm "this") (.pname "VAR_" (sanitise raw))) πd = .ok (.normal, πd.setVar ("this", []) v) := by
    simp [assign1, nm, execPS, evalE, hv, assignTo]
  simp only [fnPrologueTail, execPL_cons, s1, s2, s3, s4, s5, execPL]
  simp [enterFnPi, πd, πc, πb, πa]

/-- the whole prologue of a named function against `bindParams` -/
theorem exec_fnPrologue (cfg : Cfg) (n : Nat) {σ : RSt} {π0 : PSt} (h : Rel env A σ π0) (raw : Str) (ps : List Str)
    (selfV arV : Val) (id : Nat) (hg : lookupP ("VAR_", sanitise raw) π0.globals = some (.fn id))
    (parameters : List Val) (locals : List (Str × Val)) (σ1 : RSt) (hb : bindParams ps [] [] σ = .ok (parameters, locals, σ1)) :
    ∃ π2, execPL cfg n (fnDefPrologue raw ps) (calleePi π0 (.list σ.stack.reverse) selfV arV) = .ok (.normal, π2) ∧
      Rel env (some (.list σ1.stack.reverse)) (enterFn σ σ1 parameters locals) π2 := by
  have s0 : execPS cfg n (assign1 (nm "parameters") (.list [])) (calleePi π0 (.list σ.stack.reverse) selfV arV) =
      .ok (.normal, (calleePi π0 (.list σ.stack.reverse) selfV arV).setVar ("parameters", []) (.list [])) := by
    simp [assign1, nm, execPS, evalE, evalArgs, assignTo]
  obtain ⟨π1, hps, hP⟩ := exec_params cfg n π0 h.retain ps [] [] σ _ (prel_init h selfV arV) parameters locals σ1 hb
  have hd : π1.depth ≠ 0 := by rw [hP.depth]; omega
  have hgl : π1.globals = π0.globals := by have := congrArg PSt.globals hP.same; exact this
  obtain ⟨thisV, htl⟩ := exec_fnPrologueTail cfg n π1 hd raw parameters hP.par id (by rw [hgl]; exact hg)
  refine ⟨enterFnPi π1 parameters thisV, ?_, rel_enterFn h parameters locals (bindParams_frame ps _ _ _ _ _ _ hb) hP thisV⟩
  rw [fnDefPrologue_eq, execPL_cons, s0]
  simp only
  rw [execPL_append, hps]
  exact htl

/-! ### the epilogue and the call -/

theorem leaveFn_ok {σ σ' : RSt} (h : σ.leaveFn = .ok σ') :
    ∃ c cv i ins s st, σ.ctxVals = c :: cv ∧ σ.inputs = i :: ins ∧ σ.stacks = s :: st ∧
      σ' = { σ with ctxVals := cv, inputs := ins, stacks := st } := by
  unfold RSt.leaveFn at h
  split at h
  · rename_i c cv i ins s st h1 h2 h3
    simp at h
    exact ⟨c, cv, i, ins, s, st, h1, h2, h3, h.symm⟩
  · simp at h

/-- `ctx.context_values.pop(); ctx.inputs.pop(); ctx.stacks.pop(); return stack` -/
theorem exec_fnEpilogue {σ σ4 : RSt} {π : PSt} (cfg : Cfg) (n : Nat) (h : Rel env A σ π) (hl : σ.leaveFn = .ok σ4) :
    ∃ π4, execPL cfg n fnDefEpilogue π = .ok (.ret (.list σ.stack.reverse), π4) ∧ Rel env A σ4 π4 := by
  obtain ⟨c, cv, i, ins, s, st, h1, h2, h3, he⟩ := leaveFn_ok hl
  subst he
  have p1 : π.ctxVals = c :: cv := by rw [h.ctxVals, h1]
  have p2 : π.inputs = i :: ins := by rw [h.inputs, h2]
  have p3 : π.stacks = s :: st := by rw [h.stacks, h3]
  have hR : Rel env A { σ with ctxVals := cv, inputs := ins, stacks := st } { π with ctxVals := cv, inputs := ins, stacks := st } :=
    ⟨h.depth, h.params0, h.stack, rfl, rfl, h.register, h.ghost, h.out, h.printed, h.retain, h.useTop, rfl, h.fnStack,
      h.gvars, h.lvars, h.clean, h.fnsLen, h.lams, h.argVar, h.gArg, h.funcs⟩
  refine ⟨{ π with ctxVals := cv, inputs := ins, stacks := st }, ?_, hR⟩
  have hs : ({ π with ctxVals := cv, inputs := ins, stacks := st } : PSt).getVar ("stack", []) = some (.list σ.stack.reverse) := hR.stack
  simp [fnDefEpilogue, execPL_cons, ctxCall, ctxE, stackE, execPS, ctxListOp, p1, p2, p3, evalE, hs]

/-- the variable `VAR_<name>` of a named function is its function object, at any depth -/
theorem getVar_func {σ : RSt} {π : PSt} (h : Rel env A σ π) (name : Str) (ps : List Str) (body : List Structure)
    (hf : lookupKV name σ.funcs = some (ps, body)) (hp : lookupKV name σ.params = Option.none) (id : Nat)
    (hg : lookupP ("VAR_", name) π.globals = some (.fn id)) : π.getVar ("VAR_", name) = some (.fn id) := by
  obtain ⟨h1, h2, _⟩ := h.funcs name ps body hf
  unfold PSt.getVar
  by_cases hd : π.depth = 0
  · rw [if_pos hd]; exact hg
  · rw [if_neg hd]
    have hpos : 0 < σ.depth := by rw [← h.depth]; omega
    rw [h.lvars hpos name h1 h2, hp]; exact hg

/-- **calling a named function**: `stack += VAR_f(stack, self=None, ctx=ctx)` -/
theorem sim_callNamed (cfg : Cfg) (n : Nat) (hsim : SimAt cfg env n) {σ : RSt} {π : PSt} (h : Rel env A σ π) (raw : Str)
    (sg : Sig) (σ' : RSt) (hr : callNamed cfg (n + 1) (sanitise raw) σ = .ok (sg, σ')) :
    ∃ π', execPL cfg (n + 1) (fnCallTemplate raw) π = .ok (.normal, π') ∧ sg = .normal ∧ Rel env A σ' π' := by
  unfold callNamed at hr
  cases hf : lookupKV (sanitise raw) σ.funcs with
  | none => simp [hf] at hr
  | some pb =>
    obtain ⟨ps, body⟩ := pb
    simp only [hf] at hr
    cases hp : lookupKV (sanitise raw) σ.params with
    | some v => simp [hp] at hr
    | none =>
      simp only [hp, Option.isSome_none, Bool.false_eq_true, ↓reduceIte] at hr
      cases hb : bindParams ps [] [] σ with
      | error e => simp [hb] at hr
      | ok r1 =>
        obtain ⟨parameters, locals, σ1⟩ := r1
        simp only [hb, R_ok_bind] at hr
        cases hbd : execL cfg n body (enterFn σ σ1 parameters locals) with
        | error e => simp [hbd] at hr
        | ok r2 =>
          obtain ⟨sg3, σ3⟩ := r2
          simp only [hbd, R_ok_bind] at hr
          cases sg3 with
          | brk => simp at hr
          | cont => simp at hr
          | ret v => simp at hr
          | normal =>
            simp only at hr
            cases hl : σ3.leaveFn with
            | error e => simp [hl] at hr
            | ok σ4 =>
              simp [hl] at hr
              obtain ⟨hsg, hσ'⟩ := hr
              subst hsg; subst hσ'
              obtain ⟨_, _, hfrag, id, pf, hg, hpf, hparams, B, raw', hraw', ⟨k0, b, k0', htr, hB⟩, hbody⟩ := h.funcs _ ps body hf
              -- the callee: prologue, body, epilogue
              have hg' : lookupP ("VAR_", sanitise raw') π.globals = some (.fn id) := by rw [hraw']; exact hg
              obtain ⟨π2, hpro, hR2⟩ := exec_fnPrologue cfg n h raw' ps .none (.int (-1)) id hg' parameters locals σ1 hb
              have hsims : Sims cfg env n body b := hsim body k0 b k0' hfrag htr
              obtain ⟨π3, hb3, hP3⟩ := hsims _ _ _ _ _ hR2 hbd
              have hR3 : Rel env _ σ3 π3 := hP3
              have hB' : execPL cfg n B π2 = .ok (.normal, π3) := by
                rcases hB with hB | hB
                · rw [hB]; exact hb3
                · rw [hB, execPL_orPass']; exact hb3
              obtain ⟨π4, hep, hR4⟩ := exec_fnEpilogue cfg n hR3 hl
              have hcallee : execPL cfg n pf.body (calleePi π (.list σ.stack.reverse) .none (.int (-1))) =
                  .ok (.ret (.list σ3.stack.reverse), π4) := by
                rw [hbody, List.append_assoc, execPL_append, hpro]
                simp only
                rw [execPL_append, hB']
                exact hep
              have hfirst : π4.getVar ("arg_stack", []) = some (.list σ1.stack.reverse) := hR4.argVar
              have hRr := h.restore hR4
              have hR5 := hRr.setStack σ1.stack
              have hR6 := hR5.setStack (σ3.stack ++ σ1.stack)
              refine ⟨_, ?_, rfl, hR6⟩
              have hcall : callPy cfg (n + 1) id [.list σ.stack.reverse, .none] [] true π =
                  .ok (.list σ3.stack.reverse, some (.list σ1.stack.reverse),
                    { π4 with locals := π.locals, depth := π.depth, globals := π.globals, fns := π.fns ++ π4.fns.drop π.fns.length }) := by
                unfold calleePi at hcallee
                unfold callPy
                simp only [hpf, hparams, bindPy_lam2, R_ok_bind, hcallee]
                simp only [lambdaParams, hfirst, ↓reduceIte]
              have hgv := getVar_func h _ ps body hf hp id hg
              have hargs : evalArgs cfg (n + 1) [stackE] π = .ok ([.list σ.stack.reverse], π) := by
                simp [evalArgs, isCtxName, stackE, evalE, h.stack]
              have hkws : evalKws cfg (n + 1) [("self", .cnone), ("ctx", ctxE)] π = .ok ([("self", .none)], π) := by
                simp [evalKws, evalE]
              have hev : evalE cfg (n + 1) (.call (.pname "VAR_" (sanitise raw)) [stackE] [("self", .cnone), ("ctx", ctxE)]) π =
                  .ok (.list σ3.stack.reverse,
                    ({ π4 with locals := π.locals, depth := π.depth, globals := π.globals, fns := π.fns ++ π4.fns.drop π.fns.length } : PSt).setVar
                      ("stack", []) (.list σ1.stack.reverse)) := by
                simp only [evalE, callVar, hgv, hargs, hkws, R_ok_bind]
                simp [hcall, stackE]
              simp only [fnCallTemplate, execPL_cons, execPS, stackE, nameKey]
              simp only [stackE] at hev
              rw [hev]
              simp only [R_ok_bind]
              have hst5 := hR5.stack
              simp only at hst5
              rw [hst5]
              simp [execPL]

/-- the call statement at any fuel -/
theorem sim_fnCall (cfg : Cfg) (N : Nat) (hsim : ∀ m, m < N → SimAt cfg env m) (raw : Str)
    (A : Option Val) (σ : RSt) (π : PSt) (sg : Sig) (σ' : RSt) (h : Rel env A σ π)
    (hr : execS cfg N (.fnCall raw) σ = .ok (sg, σ')) :
    ∃ π', execPL cfg N (fnCallTemplate raw) π = .ok (sigP sg, π') ∧ Post env A sg σ' π' := by
  simp only [execS] at hr
  cases N with
  | zero => simp [callNamed] at hr
  | succ n =>
    have hc : callNamed cfg (n + 1) (sanitise raw) σ = .ok (sg, σ') := hr
    obtain ⟨π', he, hsg, hR⟩ := sim_callNamed cfg n (hsim n (by omega)) h raw sg σ' hc
    subst hsg
    exact ⟨π', he, hR⟩

/-- `def VAR_f(arg_stack, self, arity=-1, ctx=None): …` -/
theorem sim_fnDef (cfg : Cfg) (n : Nat) (raw : Str) (ps : List Str) (body : List Structure) (B : List PyStmt)
    (hB : IsTr env body B) (hfrag : fragL env.elements body = true) :
    ∀ (A : Option Val) (σ : RSt) (π : PSt) (sg : Sig) (σ' : RSt), Rel env A σ π →
      execS cfg n (.fnDef raw ps body) σ = .ok (sg, σ') →
      ∃ π', execPL cfg n (fnDefTemplate raw ps B) π = .ok (sigP sg, π') ∧ Post env A sg σ' π' := by
  intro A σ π sg σ' h hr
  simp only [execS] at hr
  have hsan : raw.filter (fun c => isLetter c || isDigit c) = sanitise raw := rfl
  rw [hsan] at hr
  by_cases hd : σ.depth > 0
  · simp [hd] at hr
  · have hd0 : σ.depth = 0 := by omega
    simp only [hd, ↓reduceIte] at hr
    by_cases hbad : isLoopName (sanitise raw) = true ∨ sanitise raw = [] ∨ (lookupKV (sanitise raw) σ.globals).isSome = true
    · simp [hbad] at hr
    · rw [if_neg hbad] at hr
      simp [execL] at hr
      obtain ⟨h1, h2⟩ := hr; subst h1; subst h2
      have hne : sanitise raw ≠ [] := fun he => hbad (Or.inr (Or.inl he))
      have hnl : isLoopName (sanitise raw) = false := by
        cases hx : isLoopName (sanitise raw) with
        | true => exact absurd (Or.inl hx) hbad
        | false => rfl
      let pf : PFn := { params := lambdaParams, body := fnDefPrologue raw ps ++ B ++ fnDefEpilogue }
      have hR1 := h.addFn ⟨0, Option.none, [], [], false⟩ pf (fun hl => by simp at hl)
      have hpd : π.depth = 0 := by rw [h.depth, hd0]
      refine ⟨({ π with fns := π.fns ++ [pf] } : PSt).setVar ("VAR_", sanitise raw) (.fn π.fns.length), ?_, ?_⟩
      · simp [fnDefTemplate, execPL_cons, execPS, execPL, sigP, pf]
      · have hpd' : ({ π with fns := π.fns ++ [pf] } : PSt).depth = 0 := hpd
        have hk : ∀ h' : String, ("VAR_", sanitise raw) ≠ (h', ([] : List Nat)) := by
          intro h' he; injection he with _ h2; exact hne h2
        show Rel env A { σ with funcs := setKV (sanitise raw) (ps, body) σ.funcs, fns := σ.fns ++ [⟨0, Option.none, [], [], false⟩] } _
        refine ⟨by simp [h.depth], h.params0, ?_, by simp [h.ctxVals], by simp [h.inputs], by simp [h.register],
          by simp [h.ghost], by simp [h.out], by simp [h.printed], by simp [h.retain], by simp [h.useTop],
          by simp [h.stacks], by simp [h.fnStack], ?_, ?_, ?_, by simpa using hR1.fnsLen, by simpa using hR1.lams, ?_, ?_, ?_⟩
        · rw [getVar_setVar_ne _ _ _ _ (Ne.symm (hk "stack"))]; exact hR1.stack
        · intro x hx hl hf
          simp only at hf
          have hxs : x ≠ sanitise raw := by
            intro he; subst he; rw [lookupKV_setKV_eq] at hf; simp at hf
          rw [lookupKV_setKV_ne _ _ _ _ hxs] at hf
          rw [setVar_globals_d0 _ _ _ hpd', lookupP_setP_ne _ _ _ _ (by intro he; injection he with _ h2; exact hxs h2)]
          exact hR1.gvars x hx hl hf
        · intro hpos; simp [hd0] at hpos
        · intro f hj hs
          rw [getVar_setVar_ne _ _ _ _ (Ne.symm (hk f))]; exact hR1.clean f hj hs
        · rw [getVar_setVar_ne _ _ _ _ (Ne.symm (hk "arg_stack"))]; exact hR1.argVar
        · rw [globals_lookup_setVar _ _ _ _ (Ne.symm (hk "arg_stack"))]; exact hR1.gArg
        · intro name ps' body' hf
          simp only at hf
          by_cases hn : name = sanitise raw
          · subst hn
            rw [lookupKV_setKV_eq] at hf
            injection hf with hf; injection hf with hf1 hf2; subst hf1; subst hf2
            refine ⟨hne, hnl, hfrag, π.fns.length, pf, ?_, ?_, rfl, B, raw, rfl, hB, rfl⟩
            · rw [setVar_globals_d0 _ _ _ hpd', lookupP_setP_eq]
            · simp
          · rw [lookupKV_setKV_ne _ _ _ _ hn] at hf
            obtain ⟨h1, h2, h3, id, pf', h4, h5, h6, h7⟩ := hR1.funcs name ps' body' hf
            refine ⟨h1, h2, h3, id, pf', ?_, by simpa using h5, h6, h7⟩
            rw [setVar_globals_d0 _ _ _ hpd', lookupP_setP_ne _ _ _ _ (by intro he; injection he with _ h2'; exact hn h2')]
            exact h4

end Vy.Sem
