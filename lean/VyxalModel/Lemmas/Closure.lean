import VyxalModel.Lemmas.CoreSim
/-! # Closures: creating a lambda, calling a function value, the higher-order helpers -/
namespace Vy.Sem
open Vy PyAst

variable {env : TEnv} {A : Option Val}

/-- every transpiled program of the fragment simulates at fuel `m` -/
def SimAt (cfg : Cfg) (env : TEnv) (m : Nat) : Prop :=
  ∀ (prog : List Structure) (k : Nat) (code : List PyStmt) (k' : Nat), fragL env.elements prog = true →
    transpileL env k prog = .ok (code, k') → Sims cfg env m prog code

theorem eval_arE (cfg : Cfg) (n : Nat) (π : PSt) (e : PyExpr) (a : Int) (ha : ArE e a) :
    evalE cfg n e π = .ok (.int a, π) := by
  rcases ha with ha | ⟨ha, h1⟩
  · subst ha
    unfold pyInt
    split
    · simp [evalE]
    · simp [evalE]
  · subst ha; subst h1; simp [evalE, ctxE, isCtxName]

/-- a new function object on both sides -/
theorem getElem?_append_of_some {α} (l : List α) (x : α) (id : Nat) (a : α) (h : l[id]? = some a) : (l ++ [x])[id]? = some a := by
  have hlt : id < l.length := by
    by_cases hlt : id < l.length
    · exact hlt
    · rw [List.getElem?_eq_none (by omega)] at h; simp at h
  rw [List.getElem?_append_left hlt]; exact h

theorem Rel.addFn {σ : RSt} {π : PSt} (h : Rel env A σ π) (rf : RFn) (pf : PFn) (hl : rf.live = true → LamRel env rf pf) :
    Rel env A { σ with fns := σ.fns ++ [rf] } { π with fns := π.fns ++ [pf] } := by
  refine ⟨h.depth, h.params0, h.stack, h.ctxVals, h.inputs, h.register, h.ghost, h.out, h.printed, h.retain, h.useTop, h.stacks,
    h.fnStack, h.gvars, h.lvars, h.clean, by simp [h.fnsLen], ?_, h.argVar, h.gArg, ?_⟩
  · intro id rf' hid hlive
    simp only at hid ⊢
    by_cases hlt : id < σ.fns.length
    · rw [List.getElem?_append_left hlt] at hid
      obtain ⟨pf', hp, hrel⟩ := h.lams id rf' hid hlive
      exact ⟨pf', by rw [List.getElem?_append_left (by rw [h.fnsLen]; exact hlt)]; exact hp, hrel⟩
    · have hge : σ.fns.length ≤ id := by omega
      rw [List.getElem?_append_right hge] at hid
      have hid0 : id - σ.fns.length = 0 := by
        cases hk : id - σ.fns.length with
        | zero => rfl
        | succ k => rw [hk] at hid; simp at hid
      rw [hid0] at hid; simp at hid; subst hid
      refine ⟨pf, ?_, hl hlive⟩
      rw [List.getElem?_append_right (by rw [h.fnsLen]; exact hge), h.fnsLen, hid0]; simp
  · intro name ps body hf
    obtain ⟨h1, h2, h3, id, pf', h4, h5, h6, h7⟩ := h.funcs name ps body hf
    exact ⟨h1, h2, h3, id, pf', h4, getElem?_append_of_some _ _ _ _ h5, h6, h7⟩

theorem setVar_fns_comm (π : PSt) (k : PKey) (v : Val) (F : List PFn) :
    { π.setVar k v with fns := F } = ({ π with fns := F }).setVar k v := by
  unfold PSt.setVar; split <;> rfl

theorem set_length_append {α} (l : List α) (x y : α) : (l ++ [x]).set l.length y = l ++ [y] := by
  induction l with
  | nil => rfl
  | cons a t ih => simp [List.set, ih]

theorem getElem?_length_append {α} (l : List α) (x : α) : (l ++ [x])[l.length]? = some x := by
  simp

/-- `def _lambda_k(…): …`, `_lambda_k.arity = a`, `stack.append(_lambda_k)` -/
theorem sim_lambdaTemplate {σ : RSt} {π : PSt} (cfg : Cfg) (n : Nat) (h : Rel env A σ π) (idc : Str) (arE : PyExpr) (a : Int)
    (ha : ArE arE a) (body : List Structure) (B : List PyStmt) (hB : IsTr env body B) (hfrag : fragL env.elements body = true)
    (sh : List Str) :
    ∃ π', execPL cfg n (lambdaTemplate idc arE B) π = .ok (.normal, π') ∧
      Rel env A { σ with fns := σ.fns ++ [⟨a, Option.none, body, sh, true⟩], stack := .fn σ.fns.length :: σ.stack } π' := by
  let pf1 : PFn := { params := lambdaParams, body := lambdaPrologue arE ++ B ++ lambdaEpilogue, arity := some (.int a) }
  have hlr : LamRel env ⟨a, Option.none, body, sh, true⟩ pf1 :=
    ⟨rfl, ⟨arE, B, rfl, ha, hB⟩, rfl, rfl, hfrag⟩
  have hR1 := (h.addFn ⟨a, Option.none, body, sh, true⟩ pf1 (fun _ => hlr))
  have hR2 : Rel env A { σ with fns := σ.fns ++ [⟨a, Option.none, body, sh, true⟩] }
      (({ π with fns := π.fns ++ [pf1] } : PSt).setVar ("_lambda_", idc) (.fn π.fns.length)) := by
    apply hR1.setVarFrame
    · intro he; injection he with h1 _; exact absurd h1 (by decide)
    · intro x _ _ he; injection he with h1 _; exact absurd h1 (by decide)
    · intro f hf he; injection he with h1 _; subst h1; exact hf (by decide)
    · intro he; injection he with h1 _; exact absurd h1 (by decide)
  have hR3 := hR2.setStack (.fn σ.fns.length :: σ.stack)
  refine ⟨_, ?_, hR3⟩
  -- run the three statements
  let pf0 : PFn := { params := lambdaParams, body := lambdaPrologue arE ++ B ++ lambdaEpilogue }
  have s1 : execPS cfg n (.defP "_lambda_" idc lambdaParams (lambdaPrologue arE ++ B ++ lambdaEpilogue)) π =
      .ok (.normal, ({ π with fns := π.fns ++ [pf0] } : PSt).setVar ("_lambda_", idc) (.fn π.fns.length)) := by
    simp [execPS, pf0]
  have s2 : execPS cfg n (assign1 (.attr (.pname "_lambda_" idc) "arity") arE)
      (({ π with fns := π.fns ++ [pf0] } : PSt).setVar ("_lambda_", idc) (.fn π.fns.length)) =
      .ok (.normal, ({ π with fns := π.fns ++ [pf1] } : PSt).setVar ("_lambda_", idc) (.fn π.fns.length)) := by
    simp only [assign1, execPS, eval_arE cfg n _ arE a ha, R_ok_bind, assignTo, nameKey, getVar_setVar_eq, setVar_fns,
      getElem?_length_append, ↓reduceIte, set_length_append, setVar_fns_comm]
    rfl
  have s3 := (exec_push cfg n (.pname "_lambda_" idc) (.fn π.fns.length)
    (π := ({ π with fns := π.fns ++ [pf1] } : PSt).setVar ("_lambda_", idc) (.fn π.fns.length))
    (by simp [evalE, getVar_setVar_eq]) hR2).1
  simp only [lambdaTemplate, execPL_cons, s1, s2]
  simp only [h.fnsLen] at s3 ⊢
  rw [s3]; simp [execPL]


/-! ### calling a function value -/

theorem getVar_none_globals (π : PSt) (k : PKey) (h : π.getVar k = Option.none) : lookupP k π.globals = Option.none := by
  unfold PSt.getVar at h
  by_cases hd : π.depth = 0
  · simpa [hd] using h
  · simp only [hd, ↓reduceIte] at h
    cases hl : lookupP k π.locals with
    | some v => simp [hl] at h
    | none => simpa [hl] using h

/-- the frame of a running lambda after its prologue -/
def lamFrame (argRest popped : List Val) (selfV arV : Val) : List (PKey × Val) :=
  [(("arg_stack", []), .list argRest), (("self", []), selfV), (("arity", []), arV), (("stack", []), .list popped), (("this", []), selfV)]

/-- the Python state inside a lambda, after the prologue -/
def enterPi (π : PSt) (id : Nat) (argRest popped : List Val) (selfV arV : Val) (ins : List (List Val × Nat)) : PSt :=
  { π with locals := lamFrame argRest popped selfV arV, depth := π.depth + 1,
           ctxVals := ctxValOf popped :: π.ctxVals, inputs := (popped.reverse, 0) :: ins,
           stacks := .list popped :: π.stacks, fnStack := .fn id :: π.fnStack }

theorem rel_enterLam {σ : RSt} {π : PSt} (h : Rel env A σ π) (f : RFn) (id : Nat) (popped rest : List Val) (arV : Val)
    (ins : List (List Val × Nat)) :
    Rel env (some (.list rest.reverse)) (enterLam σ f id popped ins) (enterPi π id rest.reverse popped (.fn id) arV ins) := by
  refine ⟨by simp [enterPi, enterLam, h.depth], by simp [enterLam], ?_, by simp [enterPi, enterLam, h.ctxVals],
    by simp [enterPi, enterLam], h.register, h.ghost, h.out, h.printed, h.retain, h.useTop,
    by simp [enterPi, enterLam, h.stacks], by simp [enterPi, enterLam, h.fnStack], h.gvars, ?_, ?_, h.fnsLen, h.lams, ?_, h.gArg, h.funcs⟩
  · simp [PSt.getVar, enterPi, lamFrame, lookupP, enterLam]
  · intro _ x hx hl
    simp [enterPi, lamFrame, lookupP, enterLam, lookupKV]
  · intro hn hj hs
    have hg := getVar_none_globals π (hn, []) (h.clean hn hj hs)
    have h1 : hn ≠ "arg_stack" := by intro he; subst he; exact hj (by decide)
    have h2 : hn ≠ "self" := by intro he; subst he; exact hj (by decide)
    have h3 : hn ≠ "arity" := by intro he; subst he; exact hj (by decide)
    have h4 : hn ≠ "this" := by intro he; subst he; exact hj (by decide)
    simp [PSt.getVar, enterPi, lamFrame, lookupP, hg, h1.symm, h2.symm, h3.symm, h4.symm, Ne.symm hs]
  · simp [PSt.getVar, enterPi, lamFrame, lookupP]


def initFrame (argL selfV arV : Val) : List (PKey × Val) :=
  [(("arg_stack", []), argL), (("self", []), selfV), (("arity", []), arV)]

def calleePi (π : PSt) (argL selfV arV : Val) : PSt :=
  { π with locals := initFrame argL selfV arV, depth := π.depth + 1 }

@[simp] theorem specialOf_dir : specialOf "dir" = Option.none := by decide

/-- `stack = wrapify(arg_stack, <count>, ctx)` in a fresh lambda frame -/
theorem exec_wrapify_args (cfg : Cfg) (n : Nat) (π : PSt) (argStack : List Val) (selfV arV : Val) (ke : PyExpr) (k : Nat)
    (rest : List PyExpr) (kw : List (String × PyExpr)) (hret : π.retain = false)
    (hke : evalE cfg n ke (calleePi π (.list argStack.reverse) selfV arV) = .ok (.int k, calleePi π (.list argStack.reverse) selfV arV)) :
    execPS cfg n (assign1 stackE (.call (nm "wrapify") (nm "arg_stack" :: ke :: rest) kw)) (calleePi π (.list argStack.reverse) selfV arV) =
      .ok (.normal, { π with
        locals := [(("arg_stack", []), .list (popN k argStack π.inputs).2.1.reverse), (("self", []), selfV), (("arity", []), arV),
                   (("stack", []), .list (popN k argStack π.inputs).1)],
        depth := π.depth + 1, inputs := (popN k argStack π.inputs).2.2 }) := by
  have hk : ¬ ((k : Int) < 0) := by omega
  simp only [assign1, stackE, nm, execPS, evalE, specialOf_wrapify, evalSpecial, hke, R_ok_bind, asNat, hk, ↓reduceIte,
    Int.toNat_natCast, assignTo]
  simp [calleePi, initFrame, PSt.getVar, PSt.setVar, lookupP, setP, popPy_rev, hret]


@[simp] theorem Val_int_beq (a b : Int) : ((Val.int a) == (Val.int b)) = (a == b) := by
  show Val.beq (.int a) (.int b) = (a == b)
  simp [Val.beq]

theorem eval_stack_var (cfg : Cfg) (n : Nat) (π : PSt) (v : Val) (h : π.getVar ("stack", []) = some v) :
    evalE cfg n stackE π = .ok (v, π) := by simp [stackE, evalE, h]

/-- `list(deep_copy(stack)) if len(stack) != 1 else deep_copy(stack[0])` -/
theorem eval_ctxValExpr (cfg : Cfg) (n : Nat) (π : PSt) (popped : List Val) (h : π.getVar ("stack", []) = some (.list popped)) :
    evalE cfg n (.ifExp (.compare (callN "len" [stackE]) [(.ne, .cint 1)])
         (callN "list" [callN "deep_copy" [stackE]]) (callN "deep_copy" [.subscript stackE (.cint 0)])) π =
      .ok (ctxValOf popped, π) := by
  have hs := eval_stack_var cfg n π _ h
  match popped, hs with
  | [], hs => simp [callN, evalE, evalSpecial, hs, asList, cmpVals, pyTruth, b2i, ctxValOf]
  | [x], hs => simp [callN, evalE, evalSpecial, hs, asList, cmpVals, pyTruth, b2i, ctxValOf, subscriptV]
  | x :: y :: r, hs =>
    have hne : ((r.length : Int) + 1 + 1 == 1) = false := by
      simp; omega
    simp [callN, evalE, evalSpecial, hs, asList, cmpVals, pyTruth, b2i, ctxValOf, hne]

/-- `[list(deep_copy(stack))[::-1], 0]` -/
theorem eval_inputScopeExpr (cfg : Cfg) (n : Nat) (π : PSt) (popped : List Val) (h : π.getVar ("stack", []) = some (.list popped)) :
    evalE cfg n (.list [.subscript (callN "list" [callN "deep_copy" [stackE]]) (.slice Option.none Option.none (some (.unary "USub" (.cint 1)))), .cint 0]) π =
      .ok (.list [.list popped.reverse, .int 0], π) := by
  have hs := eval_stack_var cfg n π _ h
  simp [callN, evalE, evalArgs, isCtxName, evalSpecial, hs, subscriptV]

def prologueHead (ar : PyExpr) : PyStmt :=
  .ifS (.compare (nm "arity") [(.ne, .unary "USub" (.cint 1))])
      [assign1 stackE (.call (nm "wrapify") [nm "arg_stack", nm "arity"] kwCtx)]
      [.ifS (.compare (.cstr "stored_arity") [(.in_, callN "dir" [nm "self"])])
         [assign1 stackE (callN "wrapify" [nm "arg_stack", .attr (nm "self") "stored_arity", ctxE])]
         [assign1 stackE (callN "wrapify" [nm "arg_stack", ar, ctxE])]]

def prologueTail : List PyStmt :=
  [ assign1 (nm "this") (nm "self"),
    ctxCall "function_stack" "append" [nm "this"],
    ctxCall "context_values" "append"
      [.ifExp (.compare (callN "len" [stackE]) [(.ne, .cint 1)])
         (callN "list" [callN "deep_copy" [stackE]])
         (callN "deep_copy" [.subscript stackE (.cint 0)])],
    ctxCall "inputs" "append"
      [.list [.subscript (callN "list" [callN "deep_copy" [stackE]]) (.slice Option.none Option.none (some (.unary "USub" (.cint 1)))), .cint 0]],
    ctxCall "stacks" "append" [stackE] ]

theorem lambdaPrologue_eq (ar : PyExpr) : lambdaPrologue ar = prologueHead ar :: prologueTail := rfl

/-- the rest of the prologue: `this`, and one push on each bookkeeping list -/
theorem exec_prologue_tail (cfg : Cfg) (n : Nat) (π : PSt) (id : Nat) (argRest popped : List Val) (arV : Val)
    (ins : List (List Val × Nat)) :
    execPL cfg n prologueTail
      { π with locals := [(("arg_stack", []), .list argRest), (("self", []), .fn id), (("arity", []), arV), (("stack", []), .list popped)],
               depth := π.depth + 1, inputs := ins } =
      .ok (.normal, enterPi π id argRest popped (.fn id) arV ins) := by
  -- the state after `this = self`
  let π1 : PSt := { π with locals := lamFrame argRest popped (.fn id) arV, depth := π.depth + 1, inputs := ins }
  have hst : ∀ (π' : PSt), π'.locals = lamFrame argRest popped (.fn id) arV → π'.depth = π.depth + 1 →
      π'.getVar ("stack", []) = some (.list popped) ∧ π'.getVar ("this", []) = some (.fn id) := by
    intro π' hl hd
    simp [PSt.getVar, hl, hd, lamFrame, lookupP]
  have s1 : execPS cfg n (assign1 (nm "this") (nm "self"))
      { π with locals := [(("arg_stack", []), .list argRest), (("self", []), .fn id), (("arity", []), arV), (("stack", []), .list popped)],
               depth := π.depth + 1, inputs := ins } = .ok (.normal, π1) := by
    simp [assign1, nm, execPS, evalE, assignTo, PSt.getVar, PSt.setVar, lookupP, setP, π1, lamFrame]
  let π2 : PSt := { π1 with fnStack := .fn id :: π1.fnStack }
  let π3 : PSt := { π2 with ctxVals := ctxValOf popped :: π2.ctxVals }
  let π4 : PSt := { π3 with inputs := (popped.reverse, 0) :: π3.inputs }
  have s2 : execPS cfg n (ctxCall "function_stack" "append" [nm "this"]) π1 = .ok (.normal, π2) := by
    simp [ctxCall, ctxE, nm, execPS, ctxListOp, evalE, (hst π1 rfl rfl).2, π2]
  have s3 : execPS cfg n (ctxCall "context_values" "append"
      [.ifExp (.compare (callN "len" [stackE]) [(.ne, .cint 1)]) (callN "list" [callN "deep_copy" [stackE]]) (callN "deep_copy" [.subscript stackE (.cint 0)])])
      π2 = .ok (.normal, π3) := by
    simp only [ctxCall, ctxE, execPS, ctxListOp, eval_ctxValExpr cfg n π2 popped (hst π2 rfl rfl).1, R_ok_bind]
    rfl
  have s4 : execPS cfg n (ctxCall "inputs" "append"
      [.list [.subscript (callN "list" [callN "deep_copy" [stackE]]) (.slice Option.none Option.none (some (.unary "USub" (.cint 1)))), .cint 0]])
      π3 = .ok (.normal, π4) := by
    simp only [ctxCall, ctxE, execPS, ctxListOp, eval_inputScopeExpr cfg n π3 popped (hst π3 rfl rfl).1, R_ok_bind]
    rfl
  have s5 : execPS cfg n (ctxCall "stacks" "append" [stackE]) π4 = .ok (.normal, enterPi π id argRest popped (.fn id) arV ins) := by
    simp only [ctxCall, ctxE, execPS, ctxListOp, eval_stack_var cfg n π4 _ (hst π4 rfl rfl).1, R_ok_bind]
    rfl
  simp only [prologueTail, execPL_cons, s1, s2, s3, s4, s5, execPL]


def arVal (arity : Option Int) : Val :=
  match arity with
  | some a => .int a
  | Option.none => .int (-1)

theorem getVar_callee (π : PSt) (argL selfV arV : Val) :
    (calleePi π argL selfV arV).getVar ("arity", []) = some arV ∧ (calleePi π argL selfV arV).getVar ("self", []) = some selfV := by
  simp [calleePi, initFrame, PSt.getVar, lookupP]

theorem evalE_nm (cfg : Cfg) (n : Nat) (x : String) (π : PSt) (v : Val) (h : π.getVar (x, []) = some v) :
    evalE cfg n (nm x) π = .ok (v, π) := by simp [nm, evalE, h]

theorem exec_ifS (cfg : Cfg) (n : Nat) (c : PyExpr) (t e : List PyStmt) (π π1 : PSt) (b : Val) (hc : evalE cfg n c π = .ok (b, π1)) :
    execPS cfg n (.ifS c t e) π = if pyTruth b then execPL cfg n t π1 else execPL cfg n e π1 := by
  simp [execPS, hc]

theorem execPL_single (cfg : Cfg) (n : Nat) (s : PyStmt) (π π1 : PSt) (h : execPS cfg n s π = .ok (.normal, π1)) :
    execPL cfg n [s] π = .ok (.normal, π1) := by
  simp [execPL_cons, h, execPL]

/-- the first statement of a lambda called with an explicit number of arguments (`safe_apply`) -/
theorem exec_prologue_head_some (cfg : Cfg) (n : Nat) (π : PSt) (hret : π.retain = false) (id : Nat) (argStack : List Val)
    (k : Nat) (arE : PyExpr) :
    execPS cfg n (prologueHead arE) (calleePi π (.list argStack.reverse) (.fn id) (.int k)) =
      .ok (.normal, { π with
        locals := [(("arg_stack", []), .list (popN k argStack π.inputs).2.1.reverse), (("self", []), .fn id), (("arity", []), .int k),
                   (("stack", []), .list (popN k argStack π.inputs).1)],
        depth := π.depth + 1, inputs := (popN k argStack π.inputs).2.2 }) := by
  have hv := getVar_callee π (.list argStack.reverse) (.fn id) (.int k)
  have hne : ((k : Int) == -1) = false := by simp
  have hcmp : evalE cfg n (.compare (nm "arity") [(.ne, .unary "USub" (.cint 1))]) (calleePi π (.list argStack.reverse) (.fn id) (.int k))
      = .ok (.int 1, calleePi π (.list argStack.reverse) (.fn id) (.int k)) := by
    simp [evalE, evalE_nm cfg n "arity" _ _ hv.1, cmpVals, b2i, hne]
  have hw := exec_wrapify_args cfg n π argStack (.fn id) (.int k) (nm "arity") k [] kwCtx hret (evalE_nm cfg n "arity" _ _ hv.1)
  rw [prologueHead, exec_ifS cfg n _ _ _ _ _ _ hcmp]
  simp only [pyTruth, show ((1 : Int) != 0) = true by decide, ↓reduceIte]
  exact execPL_single cfg n _ _ _ hw

/-- the first statement of a lambda called through the call element: `stored_arity` if a modifier set it, else its own arity -/
theorem exec_prologue_head_none (cfg : Cfg) (n : Nat) (π : PSt) (hret : π.retain = false) (rf : RFn) (pf : PFn) (hl : LamRel env rf pf)
    (id : Nat) (hid : π.fns[id]? = some pf) (argStack : List Val) (arE : PyExpr) (haE : ArE arE rf.arity) (k : Nat)
    (hk : lamArity rf Option.none = (k : Int)) :
    execPS cfg n (prologueHead arE) (calleePi π (.list argStack.reverse) (.fn id) (.int (-1))) =
      .ok (.normal, { π with
        locals := [(("arg_stack", []), .list (popN k argStack π.inputs).2.1.reverse), (("self", []), .fn id), (("arity", []), .int (-1)),
                   (("stack", []), .list (popN k argStack π.inputs).1)],
        depth := π.depth + 1, inputs := (popN k argStack π.inputs).2.2 }) := by
  have hv := getVar_callee π (.list argStack.reverse) (.fn id) (.int (-1))
  have hcmp : evalE cfg n (.compare (nm "arity") [(.ne, .unary "USub" (.cint 1))]) (calleePi π (.list argStack.reverse) (.fn id) (.int (-1)))
      = .ok (.int 0, calleePi π (.list argStack.reverse) (.fn id) (.int (-1))) := by
    simp [evalE, evalE_nm cfg n "arity" _ _ hv.1, cmpVals, b2i]
  have hfns : (calleePi π (.list argStack.reverse) (.fn id) (.int (-1))).fns = π.fns := rfl
  cases hst : rf.stored with
  | some s =>
    have hps : pf.stored = some (.int s) := by rw [hl.stored, hst]; rfl
    have hsk : s = (k : Int) := by simpa [lamArity, hst] using hk
    have hdir : evalE cfg n (.compare (.cstr "stored_arity") [(.in_, callN "dir" [nm "self"])]) (calleePi π (.list argStack.reverse) (.fn id) (.int (-1)))
        = .ok (.int 1, calleePi π (.list argStack.reverse) (.fn id) (.int (-1))) := by
      simp [callN, evalE, evalE_nm cfg n "self" _ _ hv.2, hfns, hid, hps, b2i]
    have hke : evalE cfg n (.attr (nm "self") "stored_arity") (calleePi π (.list argStack.reverse) (.fn id) (.int (-1)))
        = .ok (.int k, calleePi π (.list argStack.reverse) (.fn id) (.int (-1))) := by
      simp [evalE, nm, isCtxName, hv.2, hfns, hid, hps, hsk]
    have hw := exec_wrapify_args cfg n π argStack (.fn id) (.int (-1)) (.attr (nm "self") "stored_arity") k [ctxE] [] hret hke
    rw [prologueHead, exec_ifS cfg n _ _ _ _ _ _ hcmp]
    simp only [pyTruth, bne_self_eq_false, Bool.false_eq_true, ↓reduceIte]
    apply execPL_single
    rw [exec_ifS cfg n _ _ _ _ _ _ hdir]
    simp only [pyTruth, show ((1 : Int) != 0) = true by decide, ↓reduceIte]
    exact execPL_single cfg n _ _ _ hw
  | none =>
    have hps : pf.stored = Option.none := by rw [hl.stored, hst]; rfl
    have hak : rf.arity = (k : Int) := by simpa [lamArity, hst] using hk
    have hdir : evalE cfg n (.compare (.cstr "stored_arity") [(.in_, callN "dir" [nm "self"])]) (calleePi π (.list argStack.reverse) (.fn id) (.int (-1)))
        = .ok (.int 0, calleePi π (.list argStack.reverse) (.fn id) (.int (-1))) := by
      simp [callN, evalE, evalE_nm cfg n "self" _ _ hv.2, hfns, hid, hps, b2i]
    have hke : evalE cfg n arE (calleePi π (.list argStack.reverse) (.fn id) (.int (-1)))
        = .ok (.int k, calleePi π (.list argStack.reverse) (.fn id) (.int (-1))) := by
      rw [eval_arE cfg n _ arE rf.arity haE, hak]
    have hw := exec_wrapify_args cfg n π argStack (.fn id) (.int (-1)) arE k [ctxE] [] hret hke
    rw [prologueHead, exec_ifS cfg n _ _ _ _ _ _ hcmp]
    simp only [pyTruth, bne_self_eq_false, Bool.false_eq_true, ↓reduceIte]
    apply execPL_single
    rw [exec_ifS cfg n _ _ _ _ _ _ hdir]
    simp only [pyTruth, bne_self_eq_false, Bool.false_eq_true, ↓reduceIte]
    exact execPL_single cfg n _ _ _ hw


theorem leaveLam_ok {σ σ' : RSt} (h : σ.leaveLam = .ok σ') :
    ∃ c cv i ins s st f fs, σ.ctxVals = c :: cv ∧ σ.inputs = i :: ins ∧ σ.stacks = s :: st ∧ σ.fnStack = f :: fs ∧
      σ' = { σ with ctxVals := cv, inputs := ins, stacks := st, fnStack := fs } := by
  unfold RSt.leaveLam at h
  split at h
  · rename_i c cv i ins s st f fs h1 h2 h3 h4
    simp at h
    exact ⟨c, cv, i, ins, s, st, f, fs, h1, h2, h3, h4, h.symm⟩
  · simp at h

/-- the four pops of a lambda's exit -/
theorem Rel.leaveLam {σ σ' : RSt} {π : PSt} (h : Rel env A σ π) (hl : σ.leaveLam = .ok σ') (cfg : Cfg) (n : Nat) :
    ∃ π', execPL cfg n [ctxCall "context_values" "pop" [], ctxCall "inputs" "pop" [], ctxCall "stacks" "pop" [],
        ctxCall "function_stack" "pop" []] π = .ok (.normal, π') ∧ Rel env A σ' π' ∧ (∀ k, π'.getVar k = π.getVar k) := by
  obtain ⟨c, cv, i, ins, s, st, f, fs, h1, h2, h3, h4, he⟩ := leaveLam_ok hl
  subst he
  refine ⟨{ π with ctxVals := cv, inputs := ins, stacks := st, fnStack := fs }, ?_, ?_, fun _ => rfl⟩
  · have p1 : π.ctxVals = c :: cv := by rw [h.ctxVals, h1]
    have p2 : π.inputs = i :: ins := by rw [h.inputs, h2]
    have p3 : π.stacks = s :: st := by rw [h.stacks, h3]
    have p4 : π.fnStack = f :: fs := by rw [h.fnStack, h4]
    simp [execPL_cons, ctxCall, ctxE, execPS, ctxListOp, p1, p2, p3, p4, execPL]
  · exact ⟨h.depth, h.params0, h.stack, rfl, rfl, h.register, h.ghost, h.out, h.printed, h.retain, h.useTop, rfl, rfl,
      h.gvars, h.lvars, h.clean, h.fnsLen, h.lams, h.argVar, h.gArg, h.funcs⟩

theorem evalArgs_call (cfg : Cfg) (n : Nat) (f : PyExpr) (as : List PyExpr) (kw : List (String × PyExpr)) (rest : List PyExpr) (π : PSt) :
    evalArgs cfg n (.call f as kw :: rest) π = (do
      let (v, σ1) ← evalE cfg n (.call f as kw) π
      let (vs, σ2) ← evalArgs cfg n rest σ1
      .ok (v :: vs, σ2)) := by
  simp [evalArgs, isCtxName]

/-- the epilogue of a lambda after a normal body -/
theorem exec_epilogue {σ σ4 : RSt} {π : PSt} (cfg : Cfg) (n : Nat) (h : Rel env A σ π) (hl : σ.pop1.2.leaveLam = .ok σ4) :
    ∃ π4, execPL cfg n lambdaEpilogue π = .ok (.ret (.list [σ.pop1.1]), π4) ∧ Rel env A σ4 π4 := by
  have hargs : evalArgs cfg n [pop1pos] π = .ok ([σ.pop1.1], popPi σ π 1) := by
    have := eval_pop1pos cfg n h
    unfold pop1pos at this ⊢
    rw [evalArgs_call, this]
    simp [evalArgs]
  have hR1 : Rel env A σ.pop1.2 ((popPi σ π 1).setVar ("res", []) (.list [σ.pop1.1])) := (rel_pop1 h).setJunk "res" _ (by decide)
  have s1 : execPS cfg n (assign1 (nm "res") (.list [pop1pos])) π =
      .ok (.normal, (popPi σ π 1).setVar ("res", []) (.list [σ.pop1.1])) := by
    simp [assign1, nm, execPS, evalE, hargs, assignTo]
  obtain ⟨π3, s2, hR3, hg3⟩ := hR1.leaveLam hl cfg n
  refine ⟨π3, ?_, hR3⟩
  have hres : π3.getVar ("res", []) = some (.list [σ.pop1.1]) := by
    rw [hg3]; exact getVar_setVar_eq _ _ _
  have s3 : execPS cfg n (.ret (some (nm "res"))) π3 = .ok (.ret (.list [σ.pop1.1]), π3) := by
    simp [execPS, evalE_nm cfg n "res" π3 _ hres]
  have hsplit : lambdaEpilogue = assign1 (nm "res") (.list [pop1pos]) ::
      ([ctxCall "context_values" "pop" [], ctxCall "inputs" "pop" [], ctxCall "stacks" "pop" [], ctxCall "function_stack" "pop" []] ++
       [.ret (some (nm "res"))]) := rfl
  rw [hsplit, execPL_cons, s1]
  simp only
  rw [execPL_append, s2]
  simp only [execPL_cons, s3]


theorem execPL_orPass' (cfg : Cfg) (n : Nat) (a : List PyStmt) (π : PSt) : execPL cfg n (orPass a) π = execPL cfg n a π := by
  unfold orPass
  cases a with
  | nil => simp [execPL, execPS]
  | cons s r => simp

theorem bindPy_lam2 (cfg : Cfg) (n : Nat) (a s : Val) (π : PSt) :
    bindPy cfg n lambdaParams [a, s] [] π = .ok (initFrame a s (.int (-1))) := by
  unfold lambdaParams initFrame
  unfold bindPy; simp
  unfold bindPy; simp
  unfold bindPy; simp
  unfold bindPy; simp
  unfold bindPy; simp

theorem bindPy_lam3 (cfg : Cfg) (n : Nat) (a s r : Val) (π : PSt) :
    bindPy cfg n lambdaParams [a, s, r] [] π = .ok (initFrame a s r) := by
  unfold lambdaParams initFrame
  unfold bindPy; simp
  unfold bindPy; simp
  unfold bindPy; simp
  unfold bindPy; simp
  unfold bindPy; simp

theorem getElem?_prefix_drop {α} (l l4 : List α) (id : Nat) :
    (l ++ l4.drop l.length)[id]? = if id < l.length then l[id]? else l4[id]? := by
  by_cases hlt : id < l.length
  · simp [hlt, List.getElem?_append_left hlt]
  · have hge : l.length ≤ id := by omega
    simp only [hlt, ↓reduceIte]
    rw [List.getElem?_append_right hge, List.getElem?_drop]
    congr 1; omega

/-- back in the caller's frame after a call -/
theorem Rel.restore {σ σ4 : RSt} {π π4 : PSt} {A' : Option Val} (h : Rel env A σ π) (h4 : Rel env A' σ4 π4) :
    Rel env A (restoreFrame σ σ4)
      { π4 with locals := π.locals, depth := π.depth, globals := π.globals, fns := π.fns ++ π4.fns.drop π.fns.length } := by
  refine ⟨h.depth, h.params0, ?_, h4.ctxVals, h4.inputs, h4.register, h4.ghost, h4.out, h4.printed, h4.retain, h4.useTop,
    h4.stacks, h4.fnStack, h.gvars, h.lvars, ?_, ?_, ?_, ?_, h.gArg, ?_⟩
  · exact h.stack
  · exact h.clean
  · simp [restoreFrame, h.fnsLen, h4.fnsLen]
  · intro id rf hid hlive
    simp only [restoreFrame] at hid
    rw [getElem?_prefix_drop] at hid
    simp only
    rw [getElem?_prefix_drop, h.fnsLen]
    by_cases hlt : id < σ.fns.length
    · simp only [hlt, ↓reduceIte] at hid ⊢
      exact h.lams id rf hid hlive
    · simp only [hlt, ↓reduceIte] at hid ⊢
      exact h4.lams id rf hid hlive
  · exact h.argVar
  · intro name ps body hf
    obtain ⟨h1, h2, h3, id, pf, h5, h6, h7, h8⟩ := h.funcs name ps body hf
    refine ⟨h1, h2, h3, id, pf, h5, ?_, h7, h8⟩
    simp only
    rw [getElem?_prefix_drop]
    have hlt : id < π.fns.length := by
      by_cases hlt : id < π.fns.length
      · exact hlt
      · rw [List.getElem?_eq_none (by omega)] at h6; simp at h6
    simp only [hlt, ↓reduceIte]; exact h6

/-- the Python positional arguments of a lambda call: the list it pops from, itself, and — from `safe_apply` — the count -/
def lamPos (id : Nat) (argStack : List Val) (arity : Option Nat) : List Val :=
  match arity with
  | some a => [.list argStack.reverse, .fn id, .int a]
  | Option.none => [.list argStack.reverse, .fn id]

/-- **calling a function value**: the reference call and the Python call of the function object with the same number -/
theorem sim_callLam (cfg : Cfg) (n : Nat) (hsim : SimAt cfg env n) {σ : RSt} {π : PSt} (h : Rel env A σ π) (id : Nat)
    (argStack : List Val) (arity : Option Nat) (byref : Bool) (res : Val) (rest : List Val) (σ' : RSt)
    (hr : callLam cfg (n + 1) id argStack (arity.map (fun (a : Nat) => (a : Int))) σ = .ok (res, rest, σ')) :
    ∃ π', callPy cfg (n + 1) id (lamPos id argStack arity) [] byref π = .ok (.list [res], some (.list rest.reverse), π') ∧
      Rel env A σ' π' := by
  unfold callLam at hr
  cases hf : σ.fns[id]? with
  | none => simp [hf] at hr
  | some rf =>
    simp only [hf] at hr
    by_cases hlive : rf.live = true
    · simp only [hlive, Bool.not_true, Bool.false_eq_true, ↓reduceIte] at hr
      obtain ⟨pf, hpf, hlr⟩ := h.lams id rf hf hlive
      obtain ⟨arE, B, hbody, haE, k0, b, k0', htr, hB⟩ := hlr.body
      cases hk : toNatArity (lamArity rf (arity.map (fun (a : Nat) => (a : Int)))) with
      | error e => simp [hk] at hr
      | ok k =>
        simp only [hk, R_ok_bind] at hr
        have hkk : lamArity rf (arity.map (fun (a : Nat) => (a : Int))) = (k : Int) := by
          unfold toNatArity at hk
          split at hk
          · simp at hk
          · simp at hk; omega
        -- the reference side
        cases hbd : execL cfg n rf.body (enterLam σ rf id (popN k argStack σ.inputs).1 (popN k argStack σ.inputs).2.2) with
        | error e => simp [hbd] at hr
        | ok r2 =>
          obtain ⟨sg, σ2⟩ := r2
          simp only [hbd, R_ok_bind] at hr
          cases hlr2 : lamResult sg σ2 with
          | error e => simp [hlr2] at hr
          | ok r3 =>
            obtain ⟨res3, σ3⟩ := r3
            simp only [hlr2, R_ok_bind] at hr
            cases hll : σ3.leaveLam with
            | error e => simp [hll] at hr
            | ok σ4 =>
              simp [hll] at hr
              obtain ⟨hres, hrest, hσ'⟩ := hr
              subst hres; subst hrest; subst hσ'
              -- the Python side: bind the arguments, run the prologue
              have hframe : ∃ arV, bindPy cfg n lambdaParams (lamPos id argStack arity) [] π = .ok (initFrame (.list argStack.reverse) (.fn id) arV) ∧
                  execPL cfg n (lambdaPrologue arE) (calleePi π (.list argStack.reverse) (.fn id) arV) =
                    .ok (.normal, enterPi π id (popN k argStack π.inputs).2.1.reverse (popN k argStack π.inputs).1 (.fn id) arV (popN k argStack π.inputs).2.2) := by
                cases arity with
                | some a =>
                  have hak : a = k := by
                    have : ((a : Nat) : Int) = (k : Int) := by simpa [lamArity] using hkk
                    omega
                  subst hak
                  refine ⟨.int a, bindPy_lam3 cfg n _ _ _ π, ?_⟩
                  rw [lambdaPrologue_eq, execPL_cons, exec_prologue_head_some cfg n π h.retain id argStack a arE]
                  exact exec_prologue_tail cfg n π id _ _ _ _
                | none =>
                  refine ⟨.int (-1), bindPy_lam2 cfg n _ _ π, ?_⟩
                  rw [lambdaPrologue_eq, execPL_cons, exec_prologue_head_none cfg n π h.retain rf pf hlr id hpf argStack arE haE k (by simpa using hkk)]
                  exact exec_prologue_tail cfg n π id _ _ _ _
              obtain ⟨arV, hbind, hpro⟩ := hframe
              have hRin := rel_enterLam h rf id (popN k argStack σ.inputs).1 (popN k argStack σ.inputs).2.1 arV (popN k argStack σ.inputs).2.2
              rw [← h.inputs] at hRin hbd
              -- the body
              have hsims : Sims cfg env n rf.body b := hsim rf.body k0 b k0' hlr.frag htr
              obtain ⟨π2, hbody2, hP2⟩ := hsims _ _ _ _ _ hRin hbd
              have hB' : execPL cfg n B (enterPi π id (popN k argStack π.inputs).2.1.reverse (popN k argStack π.inputs).1 (.fn id) arV (popN k argStack π.inputs).2.2)
                  = .ok (sigP sg, π2) := by
                rcases hB with hB | hB
                · rw [hB]; exact hbody2
                · rw [hB, execPL_orPass']; exact hbody2
              -- the whole body of the Python function
              have hcallee : ∃ π4, execPL cfg n pf.body (calleePi π (.list argStack.reverse) (.fn id) arV) = .ok (.ret (.list [res3]), π4) ∧
                  Rel env (some (.list (popN k argStack σ.inputs).2.1.reverse)) σ4 π4 := by
                rw [hbody, List.append_assoc, execPL_append, hpro]
                simp only
                rw [execPL_append, hB']
                cases sg with
                | normal =>
                  simp only [lamResult] at hlr2
                  injection hlr2 with hlr2
                  have h31 : res3 = σ2.pop1.1 := by rw [hlr2]
                  have h32 : σ3 = σ2.pop1.2 := by rw [hlr2]
                  subst h31; subst h32
                  simp only [sigP]
                  have hR2 : Rel env _ σ2 π2 := hP2
                  rw [← h.inputs]
                  exact exec_epilogue cfg n hR2 hll
                | ret v =>
                  simp only [lamResult] at hlr2
                  injection hlr2 with hlr2
                  injection hlr2 with h31 h32
                  subst h31; subst h32
                  obtain ⟨σ4', hl4, hR4⟩ := hP2
                  rw [hll] at hl4; injection hl4 with hl4; subst hl4
                  rw [← h.inputs]
                  exact ⟨π2, by simp [sigP], hR4⟩
                | brk => simp [lamResult] at hlr2
                | cont => simp [lamResult] at hlr2
              obtain ⟨π4, hcall, hR4⟩ := hcallee
              refine ⟨{ π4 with locals := π.locals, depth := π.depth, globals := π.globals, fns := π.fns ++ π4.fns.drop π.fns.length }, ?_, h.restore hR4⟩
              have hfirst : π4.getVar ("arg_stack", []) = some (.list (popN k argStack σ.inputs).2.1.reverse) := hR4.argVar
              unfold calleePi at hcall
              unfold callPy
              simp only [hpf, hlr.params, hbind, R_ok_bind, hcall]
              simp only [lambdaParams, hfirst, ↓reduceIte]
    · simp [hlive] at hr


/-! ### `safe_apply`, map / filter / sort, the call element, `X` in a lambda -/

/-- `safe_apply(f, a, b, …)` -/
theorem sim_applyFn (cfg : Cfg) (n : Nat) (hsim : SimAt cfg env n) {σ : RSt} {π : PSt} (h : Rel env A σ π) (f : Val) (args : List Val)
    (r : Val) (σ' : RSt) (hr : applyFn cfg (n + 1) f args σ = .ok (r, σ')) :
    ∃ π', applyPy cfg (n + 1) f args π = .ok (r, π') ∧ Rel env A σ' π' := by
  unfold applyFn at hr
  cases f with
  | fn id =>
    simp only at hr
    cases hc : callLam cfg (n + 1) id args (some (args.length : Int)) σ with
    | error e => simp [hc] at hr
    | ok r3 =>
      obtain ⟨res, rest, σ3⟩ := r3
      simp [hc] at hr; obtain ⟨h1, h2⟩ := hr; subst h1; subst h2
      obtain ⟨π', hcall, hR⟩ := sim_callLam cfg n hsim h id args (some args.length) false res rest _ (by simpa using hc)
      refine ⟨π', ?_, hR⟩
      unfold applyPy
      simp only [lamPos] at hcall
      simp [hcall]
  | int i => simp at hr
  | list l => simp at hr
  | none => simp at hr


/-- `safe_apply` at any fuel -/
theorem sim_applyFn' (cfg : Cfg) (N : Nat) (hsim : ∀ m, N = m + 1 → SimAt cfg env m) {σ : RSt} {π : PSt} (h : Rel env A σ π) (f : Val)
    (args : List Val) (r : Val) (σ' : RSt) (hr : applyFn cfg N f args σ = .ok (r, σ')) :
    ∃ π', applyPy cfg N f args π = .ok (r, π') ∧ Rel env A σ' π' := by
  cases N with
  | zero =>
    unfold applyFn at hr
    cases f <;> simp [callLam] at hr
  | succ m => exact sim_applyFn cfg m (hsim m rfl) h f args r σ' hr

theorem sim_mapFn (cfg : Cfg) (N : Nat) (hsim : ∀ m, N = m + 1 → SimAt cfg env m) (f : Val) :
    ∀ (xs : List Val) {σ : RSt} {π : PSt}, Rel env A σ π → ∀ (ys : List Val) (σ' : RSt), mapFn cfg N f xs σ = .ok (ys, σ') →
      ∃ π', mapPy cfg N f xs π = .ok (ys, π') ∧ Rel env A σ' π'
  | [], σ, π, h, ys, σ', hr => by
      simp [mapFn] at hr; obtain ⟨h1, h2⟩ := hr; subst h1; subst h2
      exact ⟨π, by simp [mapPy], h⟩
  | x :: xs, σ, π, h, ys, σ', hr => by
      simp only [mapFn] at hr
      cases ha : applyFn cfg N f [x] σ with
      | error e => simp [ha] at hr
      | ok r1 =>
        obtain ⟨y, σ1⟩ := r1
        simp only [ha, R_ok_bind] at hr
        obtain ⟨π1, hp1, hR1⟩ := sim_applyFn' cfg N hsim h f [x] y σ1 ha
        cases hm : mapFn cfg N f xs σ1 with
        | error e => cases e <;> simp [hm, lazyErr] at hr
        | ok r2 =>
          obtain ⟨ys2, σ2⟩ := r2
          simp [hm, lazyErr] at hr; obtain ⟨h1, h2⟩ := hr; subst h1; subst h2
          obtain ⟨π2, hp2, hR2⟩ := sim_mapFn cfg N hsim f xs hR1 ys2 σ2 hm
          exact ⟨π2, by simp [mapPy, hp1, hp2, lazyErr], hR2⟩

theorem sim_filterFn (cfg : Cfg) (N : Nat) (hsim : ∀ m, N = m + 1 → SimAt cfg env m) (f : Val) :
    ∀ (xs : List Val) {σ : RSt} {π : PSt}, Rel env A σ π → ∀ (ys : List Val) (σ' : RSt), filterFn cfg N f xs σ = .ok (ys, σ') →
      ∃ π', filterPy cfg N f xs π = .ok (ys, π') ∧ Rel env A σ' π'
  | [], σ, π, h, ys, σ', hr => by
      simp [filterFn] at hr; obtain ⟨h1, h2⟩ := hr; subst h1; subst h2
      exact ⟨π, by simp [filterPy], h⟩
  | x :: xs, σ, π, h, ys, σ', hr => by
      simp only [filterFn] at hr
      cases ha : applyFn cfg N f [x] σ with
      | error e => simp [ha] at hr
      | ok r1 =>
        obtain ⟨y, σ1⟩ := r1
        simp only [ha, R_ok_bind] at hr
        obtain ⟨π1, hp1, hR1⟩ := sim_applyFn' cfg N hsim h f [x] y σ1 ha
        cases hm : filterFn cfg N f xs σ1 with
        | error e => cases e <;> simp [hm, lazyErr] at hr
        | ok r2 =>
          obtain ⟨ys2, σ2⟩ := r2
          simp [hm, lazyErr] at hr; obtain ⟨h1, h2⟩ := hr; subst h1; subst h2
          obtain ⟨π2, hp2, hR2⟩ := sim_filterFn cfg N hsim f xs hR1 ys2 σ2 hm
          exact ⟨π2, by simp [filterPy, hp1, hp2, lazyErr], hR2⟩

theorem sim_keysFn (cfg : Cfg) (N : Nat) (hsim : ∀ m, N = m + 1 → SimAt cfg env m) (f : Val) :
    ∀ (xs : List Val) {σ : RSt} {π : PSt}, Rel env A σ π → ∀ (ys : List (Int × Val)) (σ' : RSt), keysFn cfg N f xs σ = .ok (ys, σ') →
      ∃ π', keysPy cfg N f xs π = .ok (ys, π') ∧ Rel env A σ' π'
  | [], σ, π, h, ys, σ', hr => by
      simp [keysFn] at hr; obtain ⟨h1, h2⟩ := hr; subst h1; subst h2
      exact ⟨π, by simp [keysPy], h⟩
  | x :: xs, σ, π, h, ys, σ', hr => by
      simp only [keysFn] at hr
      cases ha : applyFn cfg N f [x] σ with
      | error e => simp [ha] at hr
      | ok r1 =>
        obtain ⟨y, σ1⟩ := r1
        simp only [ha, R_ok_bind] at hr
        obtain ⟨π1, hp1, hR1⟩ := sim_applyFn' cfg N hsim h f [x] y σ1 ha
        cases hm : keysFn cfg N f xs σ1 with
        | error e => simp [hm] at hr
        | ok r2 =>
          obtain ⟨ys2, σ2⟩ := r2
          simp only [hm, R_ok_bind] at hr
          obtain ⟨π2, hp2, hR2⟩ := sim_keysFn cfg N hsim f xs hR1 ys2 σ2 hm
          cases y with
          | int k =>
            simp at hr; obtain ⟨h1, h2⟩ := hr; subst h1; subst h2
            exact ⟨π2, by simp [keysPy, hp1, hp2], hR2⟩
          | list l => simp at hr
          | fn i => simp at hr
          | none => simp at hr


@[simp] theorem specialOf_vy_map : specialOf "vy_map" = some .vy_map := by decide
@[simp] theorem specialOf_vy_filter : specialOf "vy_filter" = some .vy_filter := by decide
@[simp] theorem specialOf_sort_by : specialOf "sort_by" = some .sort_by := by decide
@[simp] theorem specialOf_function_call : specialOf "function_call" = some .function_call := by decide

theorem isFnVal_match (v : Val) : (match v with | .fn _ => true | _ => false) = isFnVal v := by
  cases v <;> rfl

theorem lazyErr_ok {α} {r : R α} {x : α} (h : lazyErr r = .ok x) : r = .ok x := by
  unfold lazyErr at h
  split at h
  · simp at h
  · exact h

/-- `vy_map(lhs, rhs, ctx=ctx)` with a function among the two -/
theorem eval_vy_map (cfg : Cfg) (N : Nat) (hsim : ∀ m, N = m + 1 → SimAt cfg env m) {σ : RSt} {π : PSt} (h : Rel env A σ π)
    (a b : Val) (ha : π.getVar ("lhs", []) = some a) (hb : π.getVar ("rhs", []) = some b) (hfn : (isFnVal a || isFnVal b) = true)
    (xs ys : List Val) (σ' : RSt)
    (hx : iterRange cfg (if isFnVal b then (b, a) else (a, b)).2 = .ok xs)
    (hm : mapFn cfg N (if isFnVal b then (b, a) else (a, b)).1 xs σ = .ok (ys, σ')) :
    ∃ π', evalE cfg N (.call (.name "vy_map") [.name "lhs", .name "rhs"] [("ctx", .name "ctx")]) π = .ok (.list ys, π') ∧
      Rel env A σ' π' := by
  obtain ⟨π', hp, hR⟩ := sim_mapFn cfg N hsim _ xs h ys σ' hm
  refine ⟨π', ?_, hR⟩
  simp only [evalE, specialOf_vy_map, evalSpecial, ha, hb, R_ok_bind, hfn, ↓reduceIte, hx, hp, lazyErr]

theorem eval_vy_filter (cfg : Cfg) (N : Nat) (hsim : ∀ m, N = m + 1 → SimAt cfg env m) {σ : RSt} {π : PSt} (h : Rel env A σ π)
    (a b : Val) (ha : π.getVar ("lhs", []) = some a) (hb : π.getVar ("rhs", []) = some b) (hfn : (isFnVal a || isFnVal b) = true)
    (xs ys : List Val) (σ' : RSt)
    (hx : iterRange cfg (if isFnVal a then (a, b) else (b, a)).2 = .ok xs)
    (hm : filterFn cfg N (if isFnVal a then (a, b) else (b, a)).1 xs σ = .ok (ys, σ')) :
    ∃ π', evalE cfg N (.call (.name "vy_filter") [.name "lhs", .name "rhs"] [("ctx", .name "ctx")]) π = .ok (.list ys, π') ∧
      Rel env A σ' π' := by
  obtain ⟨π', hp, hR⟩ := sim_filterFn cfg N hsim _ xs h ys σ' hm
  refine ⟨π', ?_, hR⟩
  simp only [evalE, specialOf_vy_filter, evalSpecial, ha, hb, R_ok_bind, hfn, ↓reduceIte, hx, hp, lazyErr]

theorem eval_sort_by (cfg : Cfg) (N : Nat) (hsim : ∀ m, N = m + 1 → SimAt cfg env m) {σ : RSt} {π : PSt} (h : Rel env A σ π)
    (a b : Val) (ha : π.getVar ("lhs", []) = some a) (hb : π.getVar ("rhs", []) = some b) (hfn : (isFnVal a || isFnVal b) = true)
    (xs : List Val) (ks : List (Int × Val)) (σ' : RSt)
    (hx : iterDigits (if isFnVal a then (a, b) else (b, a)).2 = .ok xs)
    (hm : keysFn cfg N (if isFnVal a then (a, b) else (b, a)).1 xs σ = .ok (ks, σ')) :
    ∃ π', evalE cfg N (.call (.name "sort_by") [.name "lhs", .name "rhs"] [("ctx", .name "ctx")]) π = .ok (.list (sortByKeys ks), π') ∧
      Rel env A σ' π' := by
  obtain ⟨π', hp, hR⟩ := sim_keysFn cfg N hsim _ xs h ks σ' hm
  refine ⟨π', ?_, hR⟩
  simp only [evalE, specialOf_sort_by, evalSpecial, ha, hb, R_ok_bind, hfn, ↓reduceIte, hx, hp]


theorem isFn_any2 (a b : Val) :
    ([b, a].reverse.any fun v => match v with | .fn _ => true | _ => false) = (isFnVal a || isFnVal b) := by
  cases a <;> cases b <;> rfl

/-- map / filter / sort-by as elements: the boilerplate around the three higher-order helpers -/
theorem sim_hoElem {σ : RSt} {π : PSt} (cfg : Cfg) (N : Nat) (hsim : ∀ m, N = m + 1 → SimAt cfg env m) (key : Str) (e : Gen.Entry)
    (body : List PyStmt) (hl : lookupElem cfg.elements key = some e) (hok : hoElemOK e = true) (hb : e.body = some body)
    (h : Rel env A σ π) (sg : Sig) (σ' : RSt) (hr : execElem cfg N key σ = .ok (sg, σ')) :
    ∃ π', execPL cfg N body π = .ok (sigP sg, π') ∧ Post env A sg σ' π' := by
  simp only [hoElemOK, Bool.and_eq_true, beq_iff_eq, Bool.or_eq_true] at hok
  obtain ⟨⟨⟨hkind, har⟩, hbp⟩, hhelper⟩ := hok
  rw [hb] at hbp
  have hbody := isBoilerplate_sound body 2 e.helper (by simpa using hbp)
  obtain ⟨a, b, hp⟩ := popK_two σ
  obtain ⟨π1, he1, hR1, hva, hvb⟩ := exec_assign_pop2 cfg N h a b hp
  unfold execElem at hr
  simp only [hl, hkind, ↓reduceIte, toNatArity, har] at hr
  simp only [show ¬ ((2 : Int) < 0) by decide, ↓reduceIte, R_ok_bind, show (2 : Int).toNat = 2 by rfl, hp, isFn_any2] at hr
  subst hbody
  simp only [boilerplate, execPL_cons, popStackE, he1]
  split at hr
  · rename_i hany
    have hfn : (isFnVal b || isFnVal a) = true := by
      cases a <;> cases b <;> simp_all [isFnVal]
    split at hr
    · -- vy_map
      rename_i a' b' hh heq
      simp at heq; obtain ⟨e1, e2⟩ := heq; subst e1; subst e2
      cases hx : iterRange cfg (if isFnVal a then (a, b) else (b, a)).2 with
      | error er =>
        exfalso; cases a <;> simp_all [isFnVal]
      | ok xs =>
        cases hm : mapFn cfg N (if isFnVal a then (a, b) else (b, a)).1 xs (σ.popK 2).2 with
        | error er => exfalso; cases er <;> cases a <;> simp_all [isFnVal, lazyErr]
        | ok r2 =>
          obtain ⟨ys, σ2⟩ := r2
          have hres : sg = .normal ∧ σ' = σ2.push (.list ys) := by
            cases a <;> simp_all [isFnVal, lazyErr]
          obtain ⟨h1, h2⟩ := hres; subst h1; subst h2
          obtain ⟨π2, hev, hR2⟩ := eval_vy_map cfg N hsim hR1 b a hvb hva hfn xs ys σ2 hx hm
          rw [hh]
          obtain ⟨he3, hR3⟩ := exec_push cfg N _ _ hev hR2
          simp only [push, stackE] at he3
          exact ⟨_, by simp only [appendCall, he3, execPL, sigP], hR3⟩
    · -- vy_filter
      rename_i a' b' hh heq
      simp at heq; obtain ⟨e1, e2⟩ := heq; subst e1; subst e2
      cases hx : iterRange cfg (if isFnVal b then (b, a) else (a, b)).2 with
      | error er =>
        exfalso; cases b <;> simp_all [isFnVal]
      | ok xs =>
        cases hm : filterFn cfg N (if isFnVal b then (b, a) else (a, b)).1 xs (σ.popK 2).2 with
        | error er => exfalso; cases er <;> cases b <;> simp_all [isFnVal, lazyErr]
        | ok r2 =>
          obtain ⟨ys, σ2⟩ := r2
          have hres : sg = .normal ∧ σ' = σ2.push (.list ys) := by
            cases b <;> simp_all [isFnVal, lazyErr]
          obtain ⟨h1, h2⟩ := hres; subst h1; subst h2
          obtain ⟨π2, hev, hR2⟩ := eval_vy_filter cfg N hsim hR1 b a hvb hva hfn xs ys σ2 hx hm
          rw [hh]
          obtain ⟨he3, hR3⟩ := exec_push cfg N _ _ hev hR2
          simp only [push, stackE] at he3
          exact ⟨_, by simp only [appendCall, he3, execPL, sigP], hR3⟩
    · -- sort_by
      rename_i a' b' hh heq
      simp at heq; obtain ⟨e1, e2⟩ := heq; subst e1; subst e2
      cases hx : iterDigits (if isFnVal b then (b, a) else (a, b)).2 with
      | error er =>
        exfalso; cases b <;> simp_all [isFnVal]
      | ok xs =>
        cases hm : keysFn cfg N (if isFnVal b then (b, a) else (a, b)).1 xs (σ.popK 2).2 with
        | error er => exfalso; cases b <;> simp_all [isFnVal]
        | ok r2 =>
          obtain ⟨ks, σ2⟩ := r2
          have hres : sg = .normal ∧ σ' = σ2.push (.list (sortByKeys ks)) := by
            cases b <;> simp_all [isFnVal]
          obtain ⟨h1, h2⟩ := hres; subst h1; subst h2
          obtain ⟨π2, hev, hR2⟩ := eval_sort_by cfg N hsim hR1 b a hvb hva hfn xs ks σ2 hx hm
          rw [hh]
          obtain ⟨he3, hR3⟩ := exec_push cfg N _ _ hev hR2
          simp only [push, stackE] at he3
          exact ⟨_, by simp only [appendCall, he3, execPL, sigP], hR3⟩
    · -- vy_reduce is not among the three helpers of `hoElemOK`
      rename_i a' b' hh heq
      exfalso
      rcases hhelper with (h1 | h1) | h1 <;> rw [h1] at hh <;> exact absurd hh (by decide)
    · simp at hr
  · -- no function value: the helper has no first-order meaning
    exfalso
    rcases hhelper with (hh | hh) | hh <;> rw [hh] at hr <;> simp at hr


/-- the call element `†` on a function value -/
theorem sim_core_call {σ σ' : RSt} {π : PSt} (cfg : Cfg) (N : Nat) (hsim : ∀ m, N = m + 1 → SimAt cfg env m) (h : Rel env A σ π) (sg : Sig)
    (hr : execCore cfg N 8224 σ = .ok (sg, σ')) : ∃ π', execPL cfg N tmpl8224 π = .ok (sigP sg, π') ∧ Post env A sg σ' π' := by
  unfold execCore at hr
  simp only [Nat.reduceEqDiff, ↓reduceIte] at hr
  cases hf : σ.pop1.1 with
  | fn id =>
    simp only [hf] at hr
    cases N with
    | zero => simp [callLam] at hr
    | succ m =>
      cases hc : callLam cfg (m + 1) id σ.pop1.2.stack Option.none σ.pop1.2 with
      | error e => simp [hc] at hr
      | ok r3 =>
        obtain ⟨res, rest, σ3⟩ := r3
        simp [hc] at hr; obtain ⟨h1, h2⟩ := hr; subst h1; subst h2
        have hR1 := rel_pop1 h
        obtain ⟨π3, hcall, hR3⟩ := sim_callLam cfg m (hsim m rfl) hR1 id σ.pop1.2.stack Option.none true res rest σ3 (by simpa using hc)
        have hR4 := hR3.setStack (res :: rest)
        rw [List.reverse_cons] at hR4
        refine ⟨_, ?_, by simpa [Post] using (hR4.setJunk "top" Val.none (by decide))⟩
        have hpn := popK_one σ
        have hp1 : (popN 1 σ.stack σ.inputs).1 = [Val.fn id] := by
          have := hpn.1; simp only [RSt.popK] at this; rw [this, hf]
        have hp2 : (popN 1 σ.stack σ.inputs).2.1 = σ.pop1.2.stack := by
          have := hpn.2; simp [RSt.popK] at this; rw [← this]
        have hpi : popPi σ π 1 = ({ π with inputs := (popN 1 σ.stack σ.inputs).2.2 } : PSt).setVar ("stack", []) (.list σ.pop1.2.stack.reverse) := by
          simp [popPi, hp2]
        have hpp : popPy 1 σ.stack.reverse π.inputs π.retain =
            ([Val.fn id], σ.pop1.2.stack.reverse, (popN 1 σ.stack σ.inputs).2.2) := by
          rw [h.retain, h.inputs, popPy_rev, hp1, hp2]
        have hev : evalE cfg (m + 1) (.call (.name "function_call") [.name "stack", .name "ctx"] []) π =
            .ok (.none, π3.setVar ("stack", []) (.list (rest.reverse ++ [res]))) := by
          simp only [lamPos] at hcall
          rw [hpi] at hcall
          simp only [evalE, specialOf_function_call, evalSpecial, h.getStack, hpp, hcall, R_ok_bind]
        have s1 := exec_assign_name cfg (m + 1) "top" _ _ π _ hev
        have hvt : ((π3.setVar ("stack", []) (.list (rest.reverse ++ [res]))).setVar ("top", []) Val.none).getVar ("top", []) = some Val.none :=
          getVar_setVar_eq _ _ _
        have hcmp : evalE cfg (m + 1) (.compare (.name "top") [(.isNot, .cnone)])
            ((π3.setVar ("stack", []) (.list (rest.reverse ++ [res]))).setVar ("top", []) Val.none) =
            .ok (.int 0, (π3.setVar ("stack", []) (.list (rest.reverse ++ [res]))).setVar ("top", []) Val.none) := by
          simp only [evalE, hvt, R_ok_bind, cmpVals, b2i]
          rfl
        simp only [tmpl8224, execPL_cons, s1]
        rw [exec_ifS cfg (m + 1) _ _ _ _ _ _ hcmp]
        simp [pyTruth, execPL, sigP]
  | int i => simp [hf] at hr
  | list l => simp [hf] at hr
  | none => simp [hf] at hr


/-- `X` directly inside a lambda: return the top of the stack -/
theorem sim_brk_lam {σ : RSt} {π : PSt} (cfg : Cfg) (n : Nat) (h : Rel env A σ π) (sg : Sig) (σ' : RSt)
    (hr : execS cfg n (.brk .lam) σ = .ok (sg, σ')) :
    ∃ π', execPL cfg n (breakTemplate .lam) π = .ok (sigP sg, π') ∧ Post env A sg σ' π' := by
  unfold execS at hr
  simp only at hr
  cases hl : σ.pop1.2.leaveLam with
  | error e => simp [hl] at hr
  | ok σ4 =>
    simp [hl] at hr; obtain ⟨h1, h2⟩ := hr; subst h1; subst h2
    -- the same statements as the epilogue, with `ret` for `res` and the keyword form of `pop`
    have hargs : evalArgs cfg n [pop1kw] π = .ok ([σ.pop1.1], popPi σ π 1) := by
      have := eval_pop1kw cfg n h
      unfold pop1kw at this ⊢
      rw [evalArgs_call, this]
      simp [evalArgs]
    have hR1 : Rel env A σ.pop1.2 ((popPi σ π 1).setVar ("ret", []) (.list [σ.pop1.1])) := (rel_pop1 h).setJunk "ret" _ (by decide)
    have s1 : execPS cfg n (assign1 (nm "ret") (.list [pop1kw])) π =
        .ok (.normal, (popPi σ π 1).setVar ("ret", []) (.list [σ.pop1.1])) := by
      simp [assign1, nm, execPS, evalE, hargs, assignTo]
    obtain ⟨π3, s2, hR3, hg3⟩ := hR1.leaveLam hl cfg n
    refine ⟨π3, ?_, ⟨σ4, hl, hR3⟩⟩
    have hres : π3.getVar ("ret", []) = some (.list [σ.pop1.1]) := by
      rw [hg3]; exact getVar_setVar_eq _ _ _
    have s3 : execPS cfg n (.ret (some (nm "ret"))) π3 = .ok (.ret (.list [σ.pop1.1]), π3) := by
      simp [execPS, evalE_nm cfg n "ret" π3 _ hres]
    have hsplit : breakTemplate .lam = assign1 (nm "ret") (.list [pop1kw]) ::
        ([ctxCall "context_values" "pop" [], ctxCall "inputs" "pop" [], ctxCall "stacks" "pop" [], ctxCall "function_stack" "pop" []] ++
         [.ret (some (nm "ret"))]) := rfl
    rw [hsplit, execPL_cons, s1]
    simp only
    rw [execPL_append, s2]
    simp only [execPL_cons, s3, sigP]

end Vy.Sem
