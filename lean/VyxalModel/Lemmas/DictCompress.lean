import VyxalModel.Model.DictCompress
/-!
# `øD` round-trips: the dictionary decompressor reads back what the dynamic programme wrote

`Dec s w`: from a clean decoder state (no pending compression character, no pending backslash) the text `s` appends
exactly `w` and leaves the decoder clean.  Literal characters outside the compression alphabet decode to themselves,
the code of a dictionary word decodes to the word, `Dec` is closed under concatenation, and every cell of the DP table
is a `Dec` for the prefix it stands for and is no longer than it.
-/
namespace Vy

variable (comp : Str) (small contents : List Str)

def udRun (st : UD) (s : Str) : UD := s.foldl (udStep comp small contents) st

def udClean (r : Str) : UD := ⟨r, [], false⟩

def Dec (s w : Str) : Prop := ∀ r, udRun comp small contents (udClean r) s = udClean (r ++ w)

theorem dec_nil : Dec comp small contents [] [] := by intro r; simp [udRun]

theorem dec_append {s1 w1 s2 w2 : Str} (h1 : Dec comp small contents s1 w1) (h2 : Dec comp small contents s2 w2) :
    Dec comp small contents (s1 ++ s2) (w1 ++ w2) := by
  intro r
  unfold udRun
  rw [List.foldl_append]
  have := h1 r
  unfold udRun at this
  rw [this]
  have := h2 (r ++ w1)
  unfold udRun at this
  rw [this, List.append_assoc]

theorem dec_lit (c : Nat) (hc : comp.contains c = false) (hb : c ≠ cBS) : Dec comp small contents [c] [c] := by
  intro r
  have hc' : c ∉ comp := by simpa using hc
  simp [udRun, udStep, udClean, hc', hb]

theorem dec_code (a b : Nat) (ha : comp.contains a = true) (hb : comp.contains b = true) (hab : a ≠ cBS) (hbb : b ≠ cBS) :
    Dec comp small contents [a, b] ((contents[comp.length * comp.idxOf a + comp.idxOf b]?).getD []) := by
  intro r
  have ha' : a ∈ comp := by simpa using ha
  have hb' : b ∈ comp := by simpa using hb
  simp [udRun, udStep, udClean, ha', hb', hab, hbb]

theorem uncompress_of_dec {s w : Str} (h : Dec comp small contents s w) : uncompressDict comp small contents s = w := by
  unfold uncompressDict
  have := h []
  unfold udRun udClean at this
  rw [this]
  simp [udFlush]

/-! ### the code of a word -/

theorem lastIdxGo_spec (w : Str) : ∀ (l : List Str) (i : Nat) (acc : Option Nat) (k : Nat), lastIdxGo w l i acc = some k →
    (acc = some k) ∨ (i ≤ k ∧ l[k - i]? = some w)
  | [], i, acc, k, h => by simp [lastIdxGo] at h; exact Or.inl h
  | x :: xs, i, acc, k, h => by
      simp only [lastIdxGo] at h
      rcases lastIdxGo_spec w xs (i + 1) _ k h with h1 | ⟨h1, h2⟩
      · by_cases hx : x = w
        · simp [hx] at h1; subst h1; right; exact ⟨Nat.le_refl _, by simp [hx]⟩
        · simp [hx] at h1; exact Or.inl h1
      · right
        refine ⟨by omega, ?_⟩
        have : k - i = (k - (i + 1)) + 1 := by omega
        rw [this]; simpa using h2

theorem lastIdx_spec (w : Str) (k : Nat) (h : lastIdx contents w = some k) : contents[k]? = some w := by
  rcases lastIdxGo_spec w contents 0 none k h with h1 | ⟨_, h2⟩
  · simp at h1
  · simpa using h2

theorem idxOf_getD {α : Str} (hn : α.Nodup) (i : Nat) (hi : i < α.length) : α.idxOf (α.getD i 0) = i := by
  have : α.getD i 0 = α[i] := by simp [List.getD, List.getElem?_eq_getElem hi]
  rw [this]
  exact hn.idxOf_getElem i hi

theorem contains_getD {α : Str} (i : Nat) (hi : i < α.length) : α.contains (α.getD i 0) = true := by
  have : α.getD i 0 = α[i] := by simp [List.getD, List.getElem?_eq_getElem hi]
  rw [this]; simp

theorem toDigits_small (b n : Nat) (hb : 2 ≤ b) (hn : n < b) : toDigits b n = [n] := by
  unfold toDigits
  have : ¬ b < 2 := by omega
  simp [this, hn]

theorem toDigits_two (b n : Nat) (hb : 2 ≤ b) (h1 : b ≤ n) (h2 : n < b * b) : toDigits b n = [n / b, n % b] := by
  have hq : n / b < b := Nat.div_lt_of_lt_mul h2
  rw [toDigits]
  have : ¬ b < 2 := by omega
  have hn : ¬ n < b := by omega
  simp [this, hn, toDigits_small b (n / b) hb hq]

/-- **the code of a word decodes to the word** -/
theorem dec_wordCode (hn : comp.Nodup) (h0 : comp.head? = some 955) (h2 : 2 ≤ comp.length)
    (hlen : contents.length ≤ comp.length * comp.length) (hbs : comp.contains cBS = false)
    (w code : Str) (h : wordCode comp contents w = some code) : Dec comp small contents code w ∧ code.length = 2 := by
  unfold wordCode at h
  cases hl : lastIdx contents w with
  | none => simp [hl] at h
  | some i =>
    simp only [hl, Option.map_some, Option.some.injEq] at h
    have hw := lastIdx_spec contents w i hl
    have hi : i < contents.length := by
      by_cases hlt : i < contents.length
      · exact hlt
      · rw [List.getElem?_eq_none (by omega)] at hw; simp at hw
    have hL := comp.length
    have hne : ∀ c, comp.contains c = true → c ≠ cBS := by
      intro c hc he; subst he; rw [hbs] at hc; simp at hc
    have h955 : comp.getD 0 0 = 955 := by
      cases hcomp : comp with
      | nil => rw [hcomp] at h0; simp at h0
      | cons a t => rw [hcomp] at h0; simp at h0; simp [h0]
    by_cases hsm : i < comp.length
    · -- one digit: `λ` in front
      have hd := toDigits_small comp.length i h2 hsm
      have hta : toAlphabet comp i = [comp.getD i 0] := by simp [toAlphabet, hd]
      rw [hta] at h
      simp at h; subst h
      refine ⟨?_, rfl⟩
      have hc0 : comp.contains 955 = true := by rw [← h955]; exact contains_getD 0 (by omega)
      have hci := contains_getD (α := comp) i hsm
      have := dec_code comp small contents 955 (comp.getD i 0) hc0 hci (hne _ hc0) (hne _ hci)
      have hidx0 : comp.idxOf 955 = 0 := by rw [← h955]; exact idxOf_getD hn 0 (by omega)
      rw [hidx0, idxOf_getD hn i hsm] at this
      simpa [hw] using this
    · -- two digits
      have hd := toDigits_two comp.length i h2 (by omega) (by omega)
      have hta : toAlphabet comp i = [comp.getD (i / comp.length) 0, comp.getD (i % comp.length) 0] := by simp [toAlphabet, hd]
      rw [hta] at h
      simp at h; subst h
      refine ⟨?_, rfl⟩
      have hq : i / comp.length < comp.length := Nat.div_lt_of_lt_mul (by omega)
      have hr : i % comp.length < comp.length := Nat.mod_lt _ (by omega)
      have hcq := contains_getD (α := comp) _ hq
      have hcr := contains_getD (α := comp) _ hr
      have := dec_code comp small contents _ _ hcq hcr (hne _ hcq) (hne _ hcr)
      rw [idxOf_getD hn _ hq, idxOf_getD hn _ hr, Nat.div_add_mod] at this
      simpa [hw] using this

/-! ### the table -/

theorem firstWord_spec (lhs : Str) (ind : Nat) : ∀ (k left : Nat) (l : Nat) (code : Str),
    firstWord comp contents lhs ind k left = some (l, code) →
    left ≤ l ∧ l < left + k ∧ wordCode comp contents ((lhs.drop l).take (ind - l)) = some code
  | 0, _, _, _, h => by simp [firstWord] at h
  | k + 1, left, l, code, h => by
      simp only [firstWord] at h
      cases hw : wordCode comp contents ((lhs.drop left).take (ind - left)) with
      | some c =>
        simp [hw] at h; obtain ⟨h1, h2⟩ := h; subst h1; subst h2
        exact ⟨Nat.le_refl _, by omega, hw⟩
      | none =>
        simp only [hw] at h
        obtain ⟨h1, h2, h3⟩ := firstWord_spec lhs ind k (left + 1) l code h
        exact ⟨by omega, by omega, h3⟩

/-- a cell that stands for the prefix of length `j` -/
def GoodCell (lhs : Str) (j : Nat) (s : Str) : Prop := Dec comp small contents s (lhs.take j) ∧ s.length ≤ j

theorem take_drop_take (lhs : Str) (l ind : Nat) (h1 : l ≤ ind) :
    lhs.take l ++ (lhs.drop l).take (ind - l) = lhs.take ind := by
  have : ind = l + (ind - l) := by omega
  conv => rhs; rw [this, List.take_add]

theorem take_succ_getD (lhs : Str) (k : Nat) (hk : k < lhs.length) : lhs.take k ++ [lhs.getD k 0] = lhs.take (k + 1) := by
  have : lhs.getD k 0 = lhs[k] := by simp [List.getD, List.getElem?_eq_getElem hk]
  rw [this, List.take_add_one, List.getElem?_eq_getElem hk]; simp

theorem dpCell_good (hn : comp.Nodup) (h0 : comp.head? = some 955) (h2 : 2 ≤ comp.length)
    (hlen : contents.length ≤ comp.length * comp.length) (hbs : comp.contains cBS = false) (maxLen : Nat)
    (lhs : Str) (hl : ∀ c ∈ lhs, comp.contains c = false ∧ c ≠ cBS) (DP : List Str) (ind : Nat) (h1 : 1 ≤ ind) (hi : ind ≤ lhs.length)
    (hDP : ∀ j < ind, GoodCell comp small contents lhs j (DP.getD j [])) :
    GoodCell comp small contents lhs ind (dpCell comp contents maxLen lhs DP ind) := by
  -- the last line of the loop body: one more literal character
  have hk : ind - 1 < lhs.length := by omega
  have hprev := hDP (ind - 1) (by omega)
  have hc := hl (lhs.getD (ind - 1) 0) (by
    have : lhs.getD (ind - 1) 0 = lhs[ind - 1] := by simp [List.getD, List.getElem?_eq_getElem hk]
    rw [this]; exact List.getElem_mem hk)
  have hcand2 : GoodCell comp small contents lhs ind (DP.getD (ind - 1) [] ++ [lhs.getD (ind - 1) 0]) := by
    constructor
    · have := dec_append comp small contents hprev.1 (dec_lit comp small contents _ hc.1 hc.2)
      rw [take_succ_getD lhs (ind - 1) hk] at this
      have e : ind - 1 + 1 = ind := by omega
      rw [e] at this; exact this
    · have := hprev.2; simp only [List.length_append, List.length_cons, List.length_nil]; omega
  unfold dpCell
  simp only
  -- the word found (if any)
  cases hf : firstWord comp contents lhs ind (ind - 1 - (ind - maxLen)) (ind - maxLen) with
  | none =>
    simp only
    unfold minLen
    have : ¬ (List.replicate (lhs.length + 1) 32).length ≤ (DP.getD (ind - 1) [] ++ [lhs.getD (ind - 1) 0]).length := by
      have := hcand2.2; simp only [List.length_replicate]; omega
    simp only [this, if_false]
    exact hcand2
  | some p =>
    obtain ⟨l, code⟩ := p
    obtain ⟨hl1, hl2, hw⟩ := firstWord_spec comp contents lhs ind _ _ l code hf
    have hlt : l + 2 ≤ ind := by omega
    obtain ⟨hdc, hcl⟩ := dec_wordCode comp small contents hn h0 h2 hlen hbs _ code hw
    have hprevl := hDP l (by omega)
    have hcand1 : GoodCell comp small contents lhs ind (DP.getD l [] ++ code) := by
      constructor
      · have := dec_append comp small contents hprevl.1 hdc
        rw [take_drop_take lhs l ind (by omega)] at this; exact this
      · have := hprevl.2; simp only [List.length_append, hcl]; omega
    simp only
    have hm1 : minLen (List.replicate (lhs.length + 1) 32) (DP.getD l [] ++ code) = DP.getD l [] ++ code := by
      unfold minLen
      have : ¬ (List.replicate (lhs.length + 1) 32).length ≤ (DP.getD l [] ++ code).length := by
        have := hcand1.2; simp only [List.length_replicate]; omega
      simp only [this, if_false]
    rw [hm1]
    unfold minLen
    split
    · exact hcand1
    · exact hcand2

theorem dpTable_good (hn : comp.Nodup) (h0 : comp.head? = some 955) (h2 : 2 ≤ comp.length)
    (hlen : contents.length ≤ comp.length * comp.length) (hbs : comp.contains cBS = false) (maxLen : Nat)
    (lhs : Str) (hl : ∀ c ∈ lhs, comp.contains c = false ∧ c ≠ cBS) :
    ∀ k, k ≤ lhs.length → (dpTable comp contents maxLen lhs k).length = k + 1 ∧
      ∀ j ≤ k, GoodCell comp small contents lhs j ((dpTable comp contents maxLen lhs k).getD j [])
  | 0, _ => by
      refine ⟨by simp [dpTable], ?_⟩
      intro j hj
      have : j = 0 := by omega
      subst this
      simp [dpTable, GoodCell, dec_nil]
  | k + 1, hk => by
      obtain ⟨ihl, ih⟩ := dpTable_good hn h0 h2 hlen hbs maxLen lhs hl k (by omega)
      refine ⟨by simp [dpTable, ihl], ?_⟩
      intro j hj
      simp only [dpTable]
      by_cases hjk : j ≤ k
      · have : (dpTable comp contents maxLen lhs k ++ [dpCell comp contents maxLen lhs (dpTable comp contents maxLen lhs k) (k + 1)]).getD j [] =
            (dpTable comp contents maxLen lhs k).getD j [] := by
          simp [List.getD, List.getElem?_append_left (by omega : j < (dpTable comp contents maxLen lhs k).length)]
        rw [this]; exact ih j hjk
      · have hje : j = k + 1 := by omega
        subst hje
        have : (dpTable comp contents maxLen lhs k ++ [dpCell comp contents maxLen lhs (dpTable comp contents maxLen lhs k) (k + 1)]).getD (k + 1) [] =
            dpCell comp contents maxLen lhs (dpTable comp contents maxLen lhs k) (k + 1) := by
          simp [List.getD, List.getElem?_append_right (by omega : (dpTable comp contents maxLen lhs k).length ≤ k + 1), ihl]
        rw [this]
        exact dpCell_good comp small contents hn h0 h2 hlen hbs maxLen lhs hl _ (k + 1) (by omega) hk (fun j hj => ih j (by omega))

end Vy
