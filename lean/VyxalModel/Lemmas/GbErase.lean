import VyxalModel.Model.Parser
open Vy

def payloadKind : TokKind → Bool
  | .string | .character | .cnum | .cstr | .cpnum => true
  | _ => false

def erase (t : Token) : Token := if payloadKind t.kind then { t with value := [] } else t

theorem erase_isGen1 (t : Token) : (erase t).isGen1 = t.isGen1 := by
  unfold erase
  cases hk : t.kind <;> simp [payloadKind, Token.isGen1, hk]

/-- `_get_branches` never looks inside a literal: it commutes with erasing payloads. -/
theorem gb_erase (ts : List Token) : ∀ (st : List Nat) (done : List (List Token)) (cur : List Token),
    gb (ts.map erase) st (done.map (·.map erase)) (cur.map erase)
      = ((gb ts st done cur).1.map (·.map erase), (gb ts st done cur).2.map erase) := by
  induction ts with
  | nil => intro st done cur; simp [gb, List.map_reverse]
  | cons t ts ih =>
    intro st done cur
    cases st with
    | nil => simp [gb, List.map_reverse]
    | cons c st =>
      simp only [List.map_cons, gb, erase_isGen1]
      cases hg : t.isGen1 with
      | none => simpa using ih (c :: st) done (t :: cur)
      | some ch =>
        simp only
        cases ho : opener? ch with
        | some p => obtain ⟨cls, cl⟩ := p; simpa using ih (cl :: c :: st) done (t :: cur)
        | none =>
          simp only
          by_cases hb : ch = cBar
          · simp only [hb, if_true]
            cases st with
            | nil => simpa [List.map_reverse] using ih [c] (cur.reverse :: done) []
            | cons d st' => simpa using ih (c :: d :: st') done (t :: cur)
          · simp only [hb, if_false]
            by_cases hc : isCloserCh ch = true
            · simp only [hc, if_true]
              by_cases he : ch = c
              · simp only [he, if_true]
                cases st with
                | nil => simp [List.map_reverse]
                | cons d st' => simpa using ih (d :: st') done (t :: cur)
              · simp only [he, if_false]
                simpa using ih (c :: st) done cur
            · simp only [hc]
              simpa using ih (c :: st) done (t :: cur)

#print axioms gb_erase
