import VyxalModel.Lemmas.Closers
open Vy

theorem gbRun_ne (ts : List Token) : ∀ st done cur st' d c,
    st ≠ [] → gbRun ts st done cur = some (st', d, c) → st' ≠ [] := by
  induction ts with
  | nil => intro st done cur st' d c hne h; simp [gbRun] at h; rw [← h.1]; exact hne
  | cons t ts ih =>
    intro st done cur st' d c hne h
    simp only [gbRun] at h
    cases hs : gbStep t st done cur with
    | none => rw [hs] at h; simp at h
    | some r =>
      obtain ⟨st1, d1, c1⟩ := r
      rw [hs] at h
      exact ih st1 d1 c1 st' d c (gbStep_ne hs) h

theorem gb_open_result (ts : List Token) (st done cur st' d c)
    (hne : st ≠ []) (h : gbRun ts st done cur = some (st', d, c)) :
    gb ts st done cur = (finish d c, []) := by
  have h1 := gb_append_open ts [] st done cur st' d c hne h
  simp only [List.append_nil] at h1
  rw [h1]
  have := gbRun_ne ts st done cur st' d c hne h
  cases st' with
  | nil => exact absurd rfl this
  | cons x xs => simp [gb, finish]

theorem finish_eq (d : List (List Token)) (c : List Token) : finish d c = d.reverse ++ [c.reverse] := by
  simp [finish]

/-- a prefix of `inner ++ [cl]` is all of it or a prefix of `inner` -/
theorem prefix_snoc {α} {cs inner : List α} {cl : α} (h : cs <+: inner ++ [cl]) :
    cs = inner ++ [cl] ∨ cs <+: inner := by
  obtain ⟨r, hr⟩ := h
  rcases List.eq_nil_or_concat r with rfl | ⟨r', x, rfl⟩
  · left; simpa using hr
  · right
    rw [List.concat_eq_append, ← List.append_assoc] at hr
    have := List.append_inj' hr (by simp)
    exact ⟨r', this.1⟩

theorem scan_cons (st : List Nat) (t : Token) (ts : List Token) : scan st (t :: ts) = scan (scanStep st t) ts := by
  simp [scan]

theorem scanStep_nil_nonopener {t : Token} (h : ∀ ch, t.isGen1 = some ch → opener? ch = none) :
    scanStep [] t = [] := by
  unfold scanStep
  cases hg : t.isGen1 with
  | none => rfl
  | some ch => simp [h ch hg]

theorem mapE_snoc {α β} (f : α → Except Err β) (D : List α) (x : α) :
    mapE f (D ++ [x]) = (do let ds ← mapE f D; let y ← f x; pure (ds ++ [y])) := by
  induction D with
  | nil => simp [mapE]; cases f x <;> rfl
  | cons a as ih =>
    simp only [List.cons_append, mapE, ih]
    cases f a with
    | error e => rfl
    | ok b =>
      simp only [bind, Except.bind]
      cases mapE f as with
      | error e => rfl
      | ok bs => simp only []; cases f x <;> rfl

theorem mapE_snoc_congr {α β} (f : α → Except Err β) (D : List α) (x x' : α) (h : f x' = f x) :
    mapE f (D ++ [x']) = mapE f (D ++ [x]) := by
  rw [mapE_snoc, mapE_snoc, h]

#print axioms mapE_snoc_congr
#print axioms prefix_snoc

/-! a token predicate is inherited by everything `_get_branches` returns -/
def AllQ (q : Token → Prop) (l : List Token) : Prop := ∀ t ∈ l, q t

theorem gbStep_pres (q : Token → Prop) {t st done cur st' d' c'}
    (hc : AllQ q cur) (hd : ∀ b ∈ done, AllQ q b) (ht : q t)
    (h : gbStep t st done cur = some (st', d', c')) : AllQ q c' ∧ ∀ b ∈ d', AllQ q b := by
  have hcons : AllQ q (t :: cur) := by
    intro x hx; rcases List.mem_cons.mp hx with rfl | hx
    · exact ht
    · exact hc x hx
  cases st with
  | nil => simp [gbStep] at h
  | cons c0 s0 =>
    cases hg : t.isGen1 with
    | none => simp [gbStep, hg] at h; obtain ⟨-, rfl, rfl⟩ := h; exact ⟨hcons, hd⟩
    | some ch =>
      cases ho : opener? ch with
      | some p => obtain ⟨cls, cl⟩ := p; simp [gbStep, hg, ho] at h; obtain ⟨-, rfl, rfl⟩ := h; exact ⟨hcons, hd⟩
      | none =>
        by_cases hb : ch = cBar
        · subst hb
          cases s0 with
          | nil =>
            simp [gbStep, hg, ho] at h; obtain ⟨-, rfl, rfl⟩ := h
            refine ⟨by intro x hx; simp at hx, ?_⟩
            intro b hb'
            rcases List.mem_cons.mp hb' with rfl | hb'
            · intro x hx; exact hc x (by simpa using hx)
            · exact hd b hb'
          | cons d0 s1 => simp [gbStep, hg, ho] at h; obtain ⟨-, rfl, rfl⟩ := h; exact ⟨hcons, hd⟩
        · by_cases hcl : isCloserCh ch = true
          · by_cases he : ch = c0
            · subst he
              cases s0 with
              | nil => simp [gbStep, hg, ho, hb, hcl] at h
              | cons d0 s1 => simp [gbStep, hg, ho, hb, hcl] at h; obtain ⟨-, rfl, rfl⟩ := h; exact ⟨hcons, hd⟩
            · simp [gbStep, hg, ho, hb, hcl, he] at h; obtain ⟨-, rfl, rfl⟩ := h; exact ⟨hc, hd⟩
          · simp [gbStep, hg, ho, hb, hcl] at h; obtain ⟨-, rfl, rfl⟩ := h; exact ⟨hcons, hd⟩

theorem finish_pres (q : Token → Prop) {done cur} (hc : AllQ q cur) (hd : ∀ b ∈ done, AllQ q b) :
    ∀ b ∈ finish done cur, AllQ q b := by
  intro b hb
  simp only [finish, List.mem_reverse, List.mem_cons] at hb
  rcases hb with rfl | hb
  · intro x hx; exact hc x (by simpa using hx)
  · exact hd b hb

theorem gb_pres (q : Token → Prop) (ts : List Token) : ∀ st done cur,
    AllQ q ts → AllQ q cur → (∀ b ∈ done, AllQ q b) →
    (∀ b ∈ (gb ts st done cur).1, AllQ q b) ∧ AllQ q (gb ts st done cur).2 := by
  induction ts with
  | nil =>
    intro st done cur _ hc hd
    cases st <;> simp only [gb] <;> exact ⟨finish_pres q hc hd, by intro x hx; simp at hx⟩
  | cons t ts ih =>
    intro st done cur hts hc hd
    have ht : q t := hts t (by simp)
    have hts' : AllQ q ts := fun x hx => hts x (by simp [hx])
    cases st with
    | nil => simp only [gb]; exact ⟨finish_pres q hc hd, hts⟩
    | cons c s =>
      rw [gb_cons]
      cases hs : gbStep t (c :: s) done cur with
      | none => exact ⟨finish_pres q hc hd, hts'⟩
      | some r =>
        obtain ⟨st1, d1, c1⟩ := r
        have := gbStep_pres q hc hd ht hs
        exact ih st1 d1 c1 hts' this.1 this.2

theorem gbRun_pres (q : Token → Prop) (ts : List Token) : ∀ st done cur st' d' c',
    AllQ q ts → AllQ q cur → (∀ b ∈ done, AllQ q b) →
    gbRun ts st done cur = some (st', d', c') → AllQ q c' := by
  induction ts with
  | nil => intro st done cur st' d' c' _ hc _ h; simp [gbRun] at h; obtain ⟨-, -, rfl⟩ := h; exact hc
  | cons t ts ih =>
    intro st done cur st' d' c' hts hc hd h
    simp only [gbRun] at h
    cases hs : gbStep t st done cur with
    | none => rw [hs] at h; simp at h
    | some r =>
      obtain ⟨st1, d1, c1⟩ := r
      rw [hs] at h
      have := gbStep_pres q hc hd (hts t (by simp)) hs
      exact ih st1 d1 c1 st' d' c' (fun x hx => hts x (by simp [hx])) this.1 this.2 h

#print axioms gb_pres

theorem head_snoc {α} (D : List α) (x : α) : (D ++ [x]).head? = some (D.head?.getD x) := by
  cases D <;> simp

theorem buildS_congr (p : List Token → Parent → Except Err (List Structure)) (par cls : Parent)
    (D : List (List Token)) (L L' : List Token) (hcls : cls ≠ .fnCall) (hp : ∀ c, p L' c = p L c) :
    buildS p par cls (D ++ [L']) = buildS p par cls (D ++ [L]) := by
  have hm : ∀ c, mapE (fun b => p b c) (D ++ [L']) = mapE (fun b => p b c) (D ++ [L]) :=
    fun c => mapE_snoc_congr _ D L L' (hp c)
  have hh : ∀ c, p ((D ++ [L']).head?.getD []) c = p ((D ++ [L]).head?.getD []) c := by
    intro c
    rw [head_snoc, head_snoc]
    cases D with
    | nil => simpa using hp c
    | cons a as => simp
  cases cls <;>
    simp only [buildS, List.getLast?_append, List.getLast?_singleton, Option.getD_some, Option.some_or,
      List.dropLast_concat, List.dropLast_append_of_ne_nil, List.length_append, List.length_singleton,
      hp, hm, hh, ne_eq, not_true_eq_false] at hcls ⊢
  all_goals (first | rfl | (cases D <;> simp_all))

#print axioms buildS_congr

def noAt (t : Token) : Prop := t.isGen1 ≠ some 64

theorem opener_closer {ch : Nat} {cls : Parent} {cl : Nat} (h : opener? ch = some (cls, cl)) :
    isCloserCh cl = true ∧ (cls = .fnCall → ch = 64) := by
  unfold opener? at h
  by_cases h0 : ch = 91
  · simp [h0] at h; obtain ⟨rfl, rfl⟩ := h; simp [isCloserCh, h0]
  by_cases h1 : ch = 40
  · simp [h0, h1] at h; obtain ⟨rfl, rfl⟩ := h; simp [isCloserCh, h1]
  by_cases h2 : ch = 123
  · simp [h0, h1, h2] at h; obtain ⟨rfl, rfl⟩ := h; simp [isCloserCh, h2]
  by_cases h3 : ch = 64
  · simp [h0, h1, h2, h3] at h; obtain ⟨rfl, rfl⟩ := h; simp [isCloserCh, h3]
  by_cases h4 : ch = 955
  · simp [h0, h1, h2, h3, h4] at h; obtain ⟨rfl, rfl⟩ := h; simp [isCloserCh, h4]
  by_cases h5 : ch = 411
  · simp [h0, h1, h2, h3, h4, h5] at h; obtain ⟨rfl, rfl⟩ := h; simp [isCloserCh, h5]
  by_cases h6 : ch = 39
  · simp [h0, h1, h2, h3, h4, h5, h6] at h; obtain ⟨rfl, rfl⟩ := h; simp [isCloserCh, h6]
  by_cases h7 : ch = 181
  · simp [h0, h1, h2, h3, h4, h5, h6, h7] at h; obtain ⟨rfl, rfl⟩ := h; simp [isCloserCh, h7]
  by_cases h8 : ch = 10216
  · simp [h0, h1, h2, h3, h4, h5, h6, h7, h8] at h; obtain ⟨rfl, rfl⟩ := h; simp [isCloserCh, h8]
  simp [h0, h1, h2, h3, h4, h5, h6, h7, h8] at h

theorem scanStep_closers {st : List Nat} {t : Token} (h : ∀ c ∈ st, isCloserCh c = true) :
    ∀ c ∈ scanStep st t, isCloserCh c = true := by
  unfold scanStep
  cases hg : t.isGen1 with
  | none => exact h
  | some ch =>
    simp only
    cases ho : opener? ch with
    | some p =>
      obtain ⟨cls, cl⟩ := p
      intro c hc
      rcases List.mem_cons.mp hc with rfl | hc
      · exact (opener_closer ho).1
      · exact h c hc
    | none =>
      simp only
      split
      · cases st with
        | nil => intro c hc; simp at hc
        | cons x xs =>
          simp only
          split
          · intro c hc; exact h c (by simp [hc])
          · exact h
      · exact h

theorem scan_closers (ts : List Token) : ∀ st, (∀ c ∈ st, isCloserCh c = true) →
    ∀ c ∈ scan st ts, isCloserCh c = true := by
  induction ts with
  | nil => intro st h; simpa [scan] using h
  | cons t ts ih => intro st h; rw [scan_cons]; exact ih _ (scanStep_closers h)

#print axioms scan_closers

theorem toks_reverse_finish (d : List (List Token)) (c : List Token) (xs : List Nat) :
    finish d ((toks xs).reverse ++ c) = d.reverse ++ [c.reverse ++ toks xs] := by
  simp [finish]

theorem allQ_append_toks {ts : List Token} {cs : List Nat} (h : AllQ noAt ts)
    (hc : ∀ c ∈ cs, isCloserCh c = true) : AllQ noAt (ts ++ toks cs) := by
  intro t ht
  rcases List.mem_append.mp ht with ht | ht
  · exact h t ht
  · simp only [toks, List.mem_map] at ht
    obtain ⟨c, hc', rfl⟩ := ht
    have := hc c hc'
    simp only [noAt, tok, Token.isGen1]
    intro e
    simp at e
    subst e
    simp [isCloserCh] at this

/-- C04 on the parser model: appending any prefix of the pending closers does not change the parse
    (programs without `@`; the `@name` header case is the documented exception). -/
theorem parse_closers : ∀ (n : Nat) (ts : List Token) (par : Parent) (cs : List Nat),
    cs <+: scan [] ts → AllQ noAt ts → parse n (ts ++ toks cs) par = parse n ts par := by
  intro n
  induction n with
  | zero => intro ts par cs _ _; simp [parse]
  | succ n ih =>
    intro ts par cs hpre hq
    cases ts with
    | nil =>
      have : cs = [] := by simpa [scan] using hpre
      subst this; simp [toks]
    | cons t ts' =>
      have ht : noAt t := hq t (by simp)
      have hq' : AllQ noAt ts' := fun x hx => hq x (by simp [hx])
      rw [scan_cons] at hpre
      rw [List.cons_append]
      -- non-opener heads leave the scan stack empty
      have hnon : (∀ ch, t.isGen1 = some ch → opener? ch = none) →
          ∀ p, parse n (ts' ++ toks cs) p = parse n ts' p := by
        intro h p
        rw [scanStep_nil_nonopener h] at hpre
        exact ih ts' p cs hpre hq'
      cases hg : t.isGen1 with
      | none =>
        have := hnon (by intro ch h; rw [hg] at h; simp at h) par
        simp only [parse, hg, this]
      | some ch =>
        cases ho : opener? ch with
        | none =>
          have hp := hnon (by intro ch' h; rw [hg] at h; simp at h; subst h; exact ho)
          -- the tail is empty on both sides or on neither
          have hnil : ts' = [] → cs = [] := by
            intro e; subst e
            rw [scanStep_nil_nonopener (by intro ch' h; rw [hg] at h; simp at h; subst h; exact ho)] at hpre
            simpa [scan] using hpre
          cases ts' with
          | nil =>
            have := hnil rfl; subst this; simp [toks]
          | cons u us =>
            simp only [parse, hg, ho, List.cons_append] at hp ⊢
            simp only [hp]
        | some p =>
          obtain ⟨cls, cl⟩ := p
          obtain ⟨hclc, hfn⟩ := opener_closer ho
          have hcls : cls ≠ .fnCall := by
            intro e; apply ht; rw [hg, hfn e]
          have hX : ch ≠ cX := by intro e; subst e; simp [opener?, cX] at ho
          have hx : ch ≠ cx := by intro e; subst e; simp [opener?, cx] at ho
          have hstep : scanStep [] t = [cl] := by simp [scanStep, hg, ho]
          rw [hstep] at hpre
          have hstk : ∀ c ∈ scan [cl] ts', isCloserCh c = true :=
            scan_closers ts' [cl] (by intro c hc; simp at hc; subst hc; exact hclc)
          have hcsc : ∀ c ∈ cs, isCloserCh c = true := fun c hc => hstk c (hpre.subset hc)
          simp only [parse, hg, ho, hX, hx, if_false]
          cases hrun : gbRun ts' [cl] [] [] with
          | none =>
            -- the structure closes inside ts'
            have hgb := gb_append_closed ts' (toks cs) [cl] [] [] (by simp) hrun
            have hsc := scan_closed ts' [cl] [] [] (by simp) hrun
            rw [hsc] at hpre
            have hrest : AllQ noAt (gb ts' [cl] [] []).2 :=
              (gb_pres noAt ts' [cl] [] [] hq' (by intro x hx; simp at hx) (by intro b hb; simp at hb)).2
            rw [hgb]
            simp only
            rw [ih _ par cs hpre hrest]
          | some r =>
            obtain ⟨st2, d2, c2⟩ := r
            have hres := gb_open_result ts' [cl] [] [] st2 d2 c2 (by simp) hrun
            have hst2 := gbRun_scan ts' [cl] [] [] st2 d2 c2 hrun
            have hinv : GInv cl st2 c2 := gbRun_inv cl ts' [cl] [] [] st2 d2 c2 (by simp [GInv, scan]) hrun
            have hL : AllQ noAt c2.reverse := by
              have := gbRun_pres noAt ts' [cl] [] [] st2 d2 c2 hq' (by intro x hx; simp at hx) (by intro b hb; simp at hb) hrun
              intro x hx; exact this x (by simpa using hx)
            rw [← hst2] at hpre hstk
            unfold GInv at hinv
            have happ := gb_append_open ts' (toks cs) [cl] [] [] st2 d2 c2 (by simp) hrun
            -- in both cases the new branches are the old ones with a prefix of the inner closers on the last one
            have key : ∃ cs', cs' <+: scan [] c2.reverse ∧
                gb (ts' ++ toks cs) [cl] [] [] = (d2.reverse ++ [c2.reverse ++ toks cs'], []) := by
              rw [hinv] at hpre
              rcases prefix_snoc hpre with hfull | hpart
              · refine ⟨scan [] c2.reverse, List.prefix_refl _, ?_⟩
                rw [happ, hfull, hinv]
                have := gb_closers_full (scan [] c2.reverse) cl d2 c2
                  (by intro c hc; exact hstk c (by rw [hinv]; simp [hc])) hclc
                rw [this, toks_reverse_finish]
              · refine ⟨cs, hpart, ?_⟩
                obtain ⟨r, hr⟩ := hpart
                rw [happ, hinv, ← hr, List.append_assoc]
                have := gb_closers_partial cs (r ++ [cl]) d2 c2 hcsc (by simp)
                rw [this, toks_reverse_finish]
            obtain ⟨cs', hcs', hkey⟩ := key
            rw [hkey, hres, finish_eq]
            simp only
            have hp : ∀ c, parse n (c2.reverse ++ toks cs') c = parse n c2.reverse c :=
              fun c => ih c2.reverse c cs' hcs' hL
            rw [buildS_congr (parse n) par cls d2.reverse c2.reverse (c2.reverse ++ toks cs') hcls hp]

#print axioms parse_closers
