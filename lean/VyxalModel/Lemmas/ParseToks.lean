import VyxalModel.Lemmas.Truncation
import VyxalModel.Model.Placed
/-!
# The parser only puts tokens of its input into the tree

`parse_vtok`: if every variable token of the input carries letters only (the lexer's guarantee), so does every token
of the parsed tree (`vtokL`).  Together with `lex_variable_letters` this discharges the hypothesis of the tree-level
theorem of C18 for every source string.
-/
namespace Vy

def VQ (q : Token → Bool) (t : Token) : Prop := q t = true

theorem mapE_allTok (q : Token → Bool) (f : List Token → Except Err (List Structure))
    (hf : ∀ b r, AllQ (VQ q) b → f b = .ok r → allTokL q r = true) :
    ∀ (bs : List (List Token)) (rs : List (List Structure)), (∀ b ∈ bs, AllQ (VQ q) b) → mapE f bs = .ok rs → allTokLL q rs = true
  | [], rs, _, h => by simp [mapE] at h; subst h; simp [allTokLL]
  | b :: bs, rs, hb, h => by
      simp only [mapE] at h
      cases h1 : f b with
      | error e => simp [h1, bind, Except.bind] at h
      | ok r =>
        cases h2 : mapE f bs with
        | error e => simp [h1, h2, bind, Except.bind] at h
        | ok rs' =>
          simp [h1, h2, bind, Except.bind, pure, Except.pure] at h; subst h
          simp only [allTokLL, Bool.and_eq_true]
          exact ⟨hf b r (hb b (by simp)) h1, mapE_allTok q f hf bs rs' (fun x hx => hb x (by simp [hx])) h2⟩

theorem allQ_getLast (q : Token → Bool) (bs : List (List Token)) (h : ∀ b ∈ bs, AllQ (VQ q) b) : AllQ (VQ q) (bs.getLast?.getD []) := by
  cases hl : bs.getLast? with
  | none => intro x hx; simp at hx
  | some l => exact h l (List.mem_of_getLast? hl)

theorem allQ_head (q : Token → Bool) (bs : List (List Token)) (h : ∀ b ∈ bs, AllQ (VQ q) b) : AllQ (VQ q) (bs.head?.getD []) := by
  cases hl : bs.head? with
  | none => intro x hx; simp at hx
  | some l => exact h l (List.mem_of_head? hl)

/-- what `buildS` builds from branches of good tokens, given a recursive parser that preserves them -/
theorem buildS_allTok (q : Token → Bool) (hlo : ∀ k, q ⟨.general, lamOpKey k⟩ = true) (p : List Token → Parent → Except Err (List Structure))
    (hp : ∀ ts par r, AllQ (VQ q) ts → p ts par = .ok r → allTokL q r = true) (par cls : Parent) (branches : List (List Token))
    (hb : ∀ b ∈ branches, AllQ (VQ q) b) (s : Structure) (h : buildS p par cls branches = .ok s) : allTokS q s = true := by
  have hlast := allQ_getLast q branches hb
  have hhead := allQ_head q branches hb
  unfold buildS at h
  cases cls
  case forS =>
    simp only at h
    cases h1 : p (branches.getLast?.getD []) .forS with
    | error e => simp [h1, bind, Except.bind] at h
    | ok body => simp [h1, bind, Except.bind, pure, Except.pure] at h; subst h; simpa [allTokS] using hp _ _ _ hlast h1
  case whileS =>
    simp only at h
    by_cases hlen : branches.length = 1
    · simp only [hlen, if_true] at h
      cases h1 : p (branches.getLast?.getD []) .whileS with
      | error e => simp [h1, bind, Except.bind, pure, Except.pure] at h
      | ok body => simp [h1, bind, Except.bind, pure, Except.pure] at h; subst h; simpa [allTokS] using hp _ _ _ hlast h1
    · simp only [hlen, if_false] at h
      cases h0 : p (branches.head?.getD []) .whileS with
      | error e => simp [h0, bind, Except.bind] at h
      | ok c =>
        cases h1 : p (branches.getLast?.getD []) .whileS with
        | error e => simp [h0, h1, bind, Except.bind, pure, Except.pure] at h
        | ok body =>
          simp [h0, h1, bind, Except.bind, pure, Except.pure] at h; subst h
          simp [allTokS, hp _ _ _ hhead h0, hp _ _ _ hlast h1]
  case fnCall =>
    simp only at h
    by_cases hlen : branches.length > 1
    · simp only [hlen, if_true] at h
      cases h1 : p (branches.getLast?.getD []) .fnCall with
      | error e => simp [h1, bind, Except.bind] at h
      | ok body => simp [h1, bind, Except.bind, pure, Except.pure] at h; subst h; simpa [allTokS] using hp _ _ _ hlast h1
    · simp only [hlen, if_false] at h
      split at h
      · simp at h
      · simp [pure, Except.pure] at h; subst h; simp [allTokS]
  case lam =>
    simp only at h
    by_cases hlen : branches.length = 1
    · simp only [hlen, if_true] at h
      cases h1 : p (branches.getLast?.getD []) .lam with
      | error e => simp [h1, bind, Except.bind, pure, Except.pure] at h
      | ok body => simp [h1, bind, Except.bind, pure, Except.pure] at h; subst h; simpa [allTokS] using hp _ _ _ hlast h1
    · simp only [hlen, if_false] at h
      cases ha : lambdaArity (branches.head?.getD []) with
      | error e => simp [ha, bind, Except.bind] at h
      | ok a =>
        cases h1 : p (branches.getLast?.getD []) .lam with
        | error e => simp [ha, h1, bind, Except.bind, pure, Except.pure] at h
        | ok body => simp [ha, h1, bind, Except.bind, pure, Except.pure] at h; subst h; simpa [allTokS] using hp _ _ _ hlast h1
  case lmap =>
    simp only at h
    cases h1 : p (branches.head?.getD []) .lmap with
    | error e => simp [h1, bind, Except.bind] at h
    | ok body => simp [h1, bind, Except.bind, pure, Except.pure] at h; subst h; simp [allTokS, hp _ _ _ hhead h1, hlo]
  case lfilter =>
    simp only at h
    cases h1 : p (branches.head?.getD []) .lfilter with
    | error e => simp [h1, bind, Except.bind] at h
    | ok body => simp [h1, bind, Except.bind, pure, Except.pure] at h; subst h; simp [allTokS, hp _ _ _ hhead h1, hlo]
  case lsort =>
    simp only at h
    cases h1 : p (branches.head?.getD []) .lsort with
    | error e => simp [h1, bind, Except.bind] at h
    | ok body => simp [h1, bind, Except.bind, pure, Except.pure] at h; subst h; simp [allTokS, hp _ _ _ hhead h1, hlo]
  case listS =>
    simp only at h
    cases h1 : mapE (fun b => p b (passParent par .listS)) branches with
    | error e => simp [h1, bind, Except.bind] at h
    | ok bs =>
      simp [h1, bind, Except.bind, pure, Except.pure] at h; subst h
      simpa [allTokS] using mapE_allTok q _ (fun b r hq hr => hp b _ r hq hr) branches bs hb h1
  all_goals
    simp only [bind, Except.bind, pure, Except.pure] at h
    split at h
    · simp at h
    · rename_i v hv
      simp at h; subst h
      simpa [allTokS] using mapE_allTok q _ (fun b r hq hr => hp b _ r hq hr) branches v hb hv

theorem vq_of_all {q : Token → Bool} {t : Token} {ts : List Token} (h : AllQ (VQ q) (t :: ts)) : VQ q t ∧ AllQ (VQ q) ts :=
  ⟨h t (by simp), fun x hx => h x (by simp [hx])⟩

/-- **the parser only puts tokens of its input into the tree** -/
theorem parse_allTok (q : Token → Bool) (hlo : ∀ k, q ⟨.general, lamOpKey k⟩ = true) : ∀ (n : Nat) (ts : List Token) (par : Parent) (tree : List Structure),
    AllQ (VQ q) ts → parse n ts par = .ok tree → allTokL q tree = true := by
  intro n
  induction n with
  | zero => intro ts par tree _ h; simp [parse] at h
  | succ n ih =>
    intro ts par tree hq h
    cases ts with
    | nil => simp [parse] at h; subst h; simp [allTokL]
    | cons t ts =>
      obtain ⟨ht, hts⟩ := vq_of_all hq
      -- the two shapes every case reduces to: a head structure followed by a recursive parse of good tokens
      have cons_ok : ∀ (s : Structure) (rest : List Token) (p' : Parent), allTokS q s = true → AllQ (VQ q) rest →
          ∀ tree', (do let r ← parse n rest p'; pure (s :: r)) = Except.ok tree' → allTokL q tree' = true := by
        intro s rest p' hs hr tree' h'
        cases h1 : parse n rest p' with
        | error e => simp [h1, bind, Except.bind] at h'
        | ok r =>
          simp [h1, bind, Except.bind, pure, Except.pure] at h'; subst h'
          simp [allTokL, hs, ih rest p' r hr h1]
      simp only [parse] at h
      cases hg : t.isGen1 with
      | none =>
        simp only [hg] at h
        exact cons_ok (.generic t) ts par (by simp only [allTokS]; exact ht) hts tree h
      | some ch =>
        simp only [hg] at h
        by_cases hX : ch = cX
        · simp only [hX, if_true] at h
          exact cons_ok (.brk par) ts par (by simp [allTokS]) hts tree h
        · simp only [hX, if_false] at h
          by_cases hx : ch = cx
          · simp only [hx, if_true] at h
            exact cons_ok (.recurse par) ts par (by simp [allTokS]) hts tree h
          · simp only [hx, if_false] at h
            cases ho : opener? ch with
            | some pc =>
              obtain ⟨cls, cl⟩ := pc
              simp only [ho] at h
              have hgb := gb_pres (VQ q) ts [cl] [] [] hts (by intro x hx; simp at hx) (by intro b hb; simp at hb)
              cases hs : buildS (parse n) par cls (gb ts [cl] [] []).1 with
              | error e => simp [hs, bind, Except.bind] at h
              | ok s =>
                have hvs := buildS_allTok q hlo (parse n) (fun ts' par' r hq' hr' => ih ts' par' r hq' hr') par cls _ hgb.1 s hs
                simp only [hs, bind, Except.bind] at h
                exact cons_ok s _ par hvs hgb.2 tree h
            | none =>
              simp only [ho] at h
              by_cases hm : monadicMods.contains ch = true
              · simp only [hm, if_true] at h
                cases ts with
                | nil => simp at h; subst h; simp [allTokL]
                | cons u us =>
                  simp only at h
                  cases h1 : parse n (u :: us) .mon with
                  | error e => simp [h1, bind, Except.bind] at h
                  | ok rem =>
                    have hrem := ih (u :: us) .mon rem hts h1
                    simp only [h1, bind, Except.bind] at h
                    cases rem with
                    | nil => simp at h
                    | cons a r =>
                      simp only [allTokL, Bool.and_eq_true] at hrem
                      simp only at h
                      split at h <;> (simp [pure, Except.pure] at h; subst h; simp [allTokL, allTokS, hrem.1, hrem.2])
              · have hm' : monadicMods.contains ch = false := by simpa using hm
                simp only [hm', Bool.false_eq_true, if_false] at h
                by_cases hd : dyadicMods.contains ch = true
                · simp only [hd, if_true] at h
                  cases ts with
                  | nil => simp at h; subst h; simp [allTokL]
                  | cons u us =>
                    simp only at h
                    cases h1 : parse n (u :: us) .dy with
                    | error e => simp [h1, bind, Except.bind] at h
                    | ok rem =>
                      have hrem := ih (u :: us) .dy rem hts h1
                      simp only [h1, bind, Except.bind] at h
                      match rem, hrem, h with
                      | [], _, h => simp at h
                      | [_], _, h => simp at h
                      | a :: b :: r, hrem, h =>
                        simp only [allTokL, Bool.and_eq_true] at hrem
                        simp only at h
                        split at h <;> (simp [pure, Except.pure] at h; subst h; simp [allTokL, allTokS, hrem.1, hrem.2.1, hrem.2.2])
                · have hd' : dyadicMods.contains ch = false := by simpa using hd
                  simp only [hd', Bool.false_eq_true, if_false] at h
                  by_cases htr : triadicMods.contains ch = true
                  · simp only [htr, if_true] at h
                    cases ts with
                    | nil => simp at h; subst h; simp [allTokL]
                    | cons u us =>
                      simp only at h
                      cases h1 : parse n (u :: us) .tri with
                      | error e => simp [h1, bind, Except.bind] at h
                      | ok rem =>
                        have hrem := ih (u :: us) .tri rem hts h1
                        simp only [h1, bind, Except.bind] at h
                        match rem, hrem, h with
                        | [], _, h => simp at h
                        | [_], _, h => simp at h
                        | [_, _], _, h => simp at h
                        | a :: b :: c :: r, hrem, h =>
                          simp only [allTokL, Bool.and_eq_true] at hrem
                          simp [pure, Except.pure] at h; subst h
                          simp [allTokL, allTokS, hrem.1, hrem.2.1, hrem.2.2.1, hrem.2.2.2]
                  · have htr' : triadicMods.contains ch = false := by simpa using htr
                    simp only [htr', Bool.false_eq_true, if_false] at h
                    by_cases hcl : (isCloserCh ch || ch = 32 || ch = cBar) = true
                    · simp only [hcl, if_true] at h
                      exact ih ts par tree hts h
                    · have hcl' : (isCloserCh ch || ch = 32 || ch = cBar) = false := by simpa using hcl
                      simp only [hcl', Bool.false_eq_true, if_false] at h
                      exact cons_ok (.generic t) ts par (by simp only [allTokS]; exact ht) hts tree h

mutual
theorem vtok_of_allTok : ∀ (s : Structure), allTokS vtokOK s = true → vtokS s = true
  | .generic t, h => by simpa [allTokS, vtokS] using h
  | .brk _, _ => by simp [vtokS]
  | .recurse _, _ => by simp [vtokS]
  | .fnCall _, _ => by simp [vtokS]
  | .ifS bs, h => by simp only [allTokS] at h; simp only [vtokS]; exact vtokLL_of_allTok bs h
  | .forS _ body, h => by simp only [allTokS] at h; simp only [vtokS]; exact vtokL_of_allTok body h
  | .whileS Option.none body, h => by simp only [allTokS] at h; simp only [vtokS]; exact vtokL_of_allTok body h
  | .whileS (some c) body, h => by
      simp only [allTokS, Bool.and_eq_true] at h; simp only [vtokS, Bool.and_eq_true]
      exact ⟨vtokL_of_allTok c h.1, vtokL_of_allTok body h.2⟩
  | .fnDef _ _ body, h => by simp only [allTokS] at h; simp only [vtokS]; exact vtokL_of_allTok body h
  | .lam _ body, h => by simp only [allTokS] at h; simp only [vtokS]; exact vtokL_of_allTok body h
  | .lamOp _ body, h => by simp only [allTokS, Bool.and_eq_true] at h; simp only [vtokS]; exact vtokL_of_allTok body h.1
  | .listS items, h => by simp only [allTokS] at h; simp only [vtokS]; exact vtokLL_of_allTok items h
  | .mon _ a, h => by simp only [allTokS] at h; simp only [vtokS]; exact vtok_of_allTok a h
  | .dy _ a b, h => by
      simp only [allTokS, Bool.and_eq_true] at h; simp only [vtokS, Bool.and_eq_true]
      exact ⟨vtok_of_allTok a h.1, vtok_of_allTok b h.2⟩
  | .tri _ a b c, h => by
      simp only [allTokS, Bool.and_eq_true] at h; simp only [vtokS, Bool.and_eq_true]
      exact ⟨⟨vtok_of_allTok a h.1.1, vtok_of_allTok b h.1.2⟩, vtok_of_allTok c h.2⟩
theorem vtokL_of_allTok : ∀ (l : List Structure), allTokL vtokOK l = true → vtokL l = true
  | [], _ => by simp [vtokL]
  | s :: r, h => by
      simp only [allTokL, Bool.and_eq_true] at h; simp only [vtokL, Bool.and_eq_true]
      exact ⟨vtok_of_allTok s h.1, vtokL_of_allTok r h.2⟩
theorem vtokLL_of_allTok : ∀ (l : List (List Structure)), allTokLL vtokOK l = true → vtokLL l = true
  | [], _ => by simp [vtokLL]
  | s :: r, h => by
      simp only [allTokLL, Bool.and_eq_true] at h; simp only [vtokLL, Bool.and_eq_true]
      exact ⟨vtokL_of_allTok s h.1, vtokLL_of_allTok r h.2⟩
end

/-- the parser only puts tokens of its input into the tree: variable tokens -/
theorem parse_vtok (n : Nat) (ts : List Token) (par : Parent) (tree : List Structure)
    (hq : AllQ (VQ vtokOK) ts) (h : parse n ts par = .ok tree) : vtokL tree = true :=
  vtokL_of_allTok tree (parse_allTok vtokOK (by intro k; simp [vtokOK]) n ts par tree hq h)

/-- … in particular for the tokens of any source string (`lexOK`: the lexer's guarantee, `C18.lex_variable_letters`) -/
theorem parseTop_vtok (ts : List Token) (hq : ∀ t ∈ ts, (t.kind = .vget ∨ t.kind = .vset) → ∀ c ∈ t.value, isLetter c = true)
    (tree : List Structure) (h : parseTop ts = .ok tree) : vtokL tree = true := by
  apply parse_vtok _ ts .none tree _ h
  intro t ht
  unfold VQ vtokOK
  cases hk : t.kind <;> simp only
  · exact List.all_eq_true.mpr (hq t ht (Or.inl hk))
  · exact List.all_eq_true.mpr (hq t ht (Or.inr hk))

end Vy
