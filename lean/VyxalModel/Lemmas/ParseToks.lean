import VyxalModel.Lemmas.Truncation
import VyxalModel.Model.Placed
/-!
# The parser only puts tokens of its input into the tree

`parse_vtok`: if every variable token of the input carries letters only (the lexer's guarantee), so does every token
of the parsed tree (`vtokL`).  Together with `lex_variable_letters` this discharges the hypothesis of the tree-level
theorem of C18 for every source string.
-/
namespace Vy

def VQ (t : Token) : Prop := vtokOK t = true

theorem mapE_vtok (f : List Token → Except Err (List Structure))
    (hf : ∀ b r, AllQ VQ b → f b = .ok r → vtokL r = true) :
    ∀ (bs : List (List Token)) (rs : List (List Structure)), (∀ b ∈ bs, AllQ VQ b) → mapE f bs = .ok rs → vtokLL rs = true
  | [], rs, _, h => by simp [mapE] at h; subst h; simp [vtokLL]
  | b :: bs, rs, hb, h => by
      simp only [mapE] at h
      cases h1 : f b with
      | error e => simp [h1, bind, Except.bind] at h
      | ok r =>
        cases h2 : mapE f bs with
        | error e => simp [h1, h2, bind, Except.bind] at h
        | ok rs' =>
          simp [h1, h2, bind, Except.bind, pure, Except.pure] at h; subst h
          simp only [vtokLL, Bool.and_eq_true]
          exact ⟨hf b r (hb b (by simp)) h1, mapE_vtok f hf bs rs' (fun x hx => hb x (by simp [hx])) h2⟩

theorem allQ_getLast (bs : List (List Token)) (h : ∀ b ∈ bs, AllQ VQ b) : AllQ VQ (bs.getLast?.getD []) := by
  cases hl : bs.getLast? with
  | none => intro x hx; simp at hx
  | some l => exact h l (List.mem_of_getLast? hl)

theorem allQ_head (bs : List (List Token)) (h : ∀ b ∈ bs, AllQ VQ b) : AllQ VQ (bs.head?.getD []) := by
  cases hl : bs.head? with
  | none => intro x hx; simp at hx
  | some l => exact h l (List.mem_of_head? hl)

/-- what `buildS` builds from branches of good tokens, given a recursive parser that preserves them -/
theorem buildS_vtok (p : List Token → Parent → Except Err (List Structure))
    (hp : ∀ ts par r, AllQ VQ ts → p ts par = .ok r → vtokL r = true) (par cls : Parent) (branches : List (List Token))
    (hb : ∀ b ∈ branches, AllQ VQ b) (s : Structure) (h : buildS p par cls branches = .ok s) : vtokS s = true := by
  have hlast := allQ_getLast branches hb
  have hhead := allQ_head branches hb
  unfold buildS at h
  cases cls
  case forS =>
    simp only at h
    cases h1 : p (branches.getLast?.getD []) .forS with
    | error e => simp [h1, bind, Except.bind] at h
    | ok body => simp [h1, bind, Except.bind, pure, Except.pure] at h; subst h; simpa [vtokS] using hp _ _ _ hlast h1
  case whileS =>
    simp only at h
    by_cases hlen : branches.length = 1
    · simp only [hlen, if_true] at h
      cases h1 : p (branches.getLast?.getD []) .whileS with
      | error e => simp [h1, bind, Except.bind, pure, Except.pure] at h
      | ok body => simp [h1, bind, Except.bind, pure, Except.pure] at h; subst h; simpa [vtokS] using hp _ _ _ hlast h1
    · simp only [hlen, if_false] at h
      cases h0 : p (branches.head?.getD []) .whileS with
      | error e => simp [h0, bind, Except.bind] at h
      | ok c =>
        cases h1 : p (branches.getLast?.getD []) .whileS with
        | error e => simp [h0, h1, bind, Except.bind, pure, Except.pure] at h
        | ok body =>
          simp [h0, h1, bind, Except.bind, pure, Except.pure] at h; subst h
          simp [vtokS, hp _ _ _ hhead h0, hp _ _ _ hlast h1]
  case fnCall =>
    simp only at h
    by_cases hlen : branches.length > 1
    · simp only [hlen, if_true] at h
      cases h1 : p (branches.getLast?.getD []) .fnCall with
      | error e => simp [h1, bind, Except.bind] at h
      | ok body => simp [h1, bind, Except.bind, pure, Except.pure] at h; subst h; simpa [vtokS] using hp _ _ _ hlast h1
    · simp only [hlen, if_false] at h
      split at h
      · simp at h
      · simp [pure, Except.pure] at h; subst h; simp [vtokS]
  case lam =>
    simp only at h
    by_cases hlen : branches.length = 1
    · simp only [hlen, if_true] at h
      cases h1 : p (branches.getLast?.getD []) .lam with
      | error e => simp [h1, bind, Except.bind, pure, Except.pure] at h
      | ok body => simp [h1, bind, Except.bind, pure, Except.pure] at h; subst h; simpa [vtokS] using hp _ _ _ hlast h1
    · simp only [hlen, if_false] at h
      cases ha : lambdaArity (branches.head?.getD []) with
      | error e => simp [ha, bind, Except.bind] at h
      | ok a =>
        cases h1 : p (branches.getLast?.getD []) .lam with
        | error e => simp [ha, h1, bind, Except.bind, pure, Except.pure] at h
        | ok body => simp [ha, h1, bind, Except.bind, pure, Except.pure] at h; subst h; simpa [vtokS] using hp _ _ _ hlast h1
  case lmap =>
    simp only at h
    cases h1 : p (branches.head?.getD []) .lmap with
    | error e => simp [h1, bind, Except.bind] at h
    | ok body => simp [h1, bind, Except.bind, pure, Except.pure] at h; subst h; simpa [vtokS] using hp _ _ _ hhead h1
  case lfilter =>
    simp only at h
    cases h1 : p (branches.head?.getD []) .lfilter with
    | error e => simp [h1, bind, Except.bind] at h
    | ok body => simp [h1, bind, Except.bind, pure, Except.pure] at h; subst h; simpa [vtokS] using hp _ _ _ hhead h1
  case lsort =>
    simp only at h
    cases h1 : p (branches.head?.getD []) .lsort with
    | error e => simp [h1, bind, Except.bind] at h
    | ok body => simp [h1, bind, Except.bind, pure, Except.pure] at h; subst h; simpa [vtokS] using hp _ _ _ hhead h1
  case listS =>
    simp only at h
    cases h1 : mapE (fun b => p b (passParent par .listS)) branches with
    | error e => simp [h1, bind, Except.bind] at h
    | ok bs =>
      simp [h1, bind, Except.bind, pure, Except.pure] at h; subst h
      simpa [vtokS] using mapE_vtok _ (fun b r hq hr => hp b _ r hq hr) branches bs hb h1
  all_goals
    simp only [bind, Except.bind, pure, Except.pure] at h
    split at h
    · simp at h
    · rename_i v hv
      simp at h; subst h
      simpa [vtokS] using mapE_vtok _ (fun b r hq hr => hp b _ r hq hr) branches v hb hv

theorem vq_of_all {t : Token} {ts : List Token} (h : AllQ VQ (t :: ts)) : VQ t ∧ AllQ VQ ts :=
  ⟨h t (by simp), fun x hx => h x (by simp [hx])⟩

/-- **the parser only puts tokens of its input into the tree** -/
theorem parse_vtok : ∀ (n : Nat) (ts : List Token) (par : Parent) (tree : List Structure),
    AllQ VQ ts → parse n ts par = .ok tree → vtokL tree = true := by
  intro n
  induction n with
  | zero => intro ts par tree _ h; simp [parse] at h
  | succ n ih =>
    intro ts par tree hq h
    cases ts with
    | nil => simp [parse] at h; subst h; simp [vtokL]
    | cons t ts =>
      obtain ⟨ht, hts⟩ := vq_of_all hq
      -- the two shapes every case reduces to: a head structure followed by a recursive parse of good tokens
      have cons_ok : ∀ (s : Structure) (rest : List Token) (p' : Parent), vtokS s = true → AllQ VQ rest →
          ∀ tree', (do let r ← parse n rest p'; pure (s :: r)) = Except.ok tree' → vtokL tree' = true := by
        intro s rest p' hs hr tree' h'
        cases h1 : parse n rest p' with
        | error e => simp [h1, bind, Except.bind] at h'
        | ok r =>
          simp [h1, bind, Except.bind, pure, Except.pure] at h'; subst h'
          simp [vtokL, hs, ih rest p' r hr h1]
      simp only [parse] at h
      cases hg : t.isGen1 with
      | none =>
        simp only [hg] at h
        exact cons_ok (.generic t) ts par (by simp only [vtokS]; exact ht) hts tree h
      | some ch =>
        simp only [hg] at h
        by_cases hX : ch = cX
        · simp only [hX, if_true] at h
          exact cons_ok (.brk par) ts par (by simp [vtokS]) hts tree h
        · simp only [hX, if_false] at h
          by_cases hx : ch = cx
          · simp only [hx, if_true] at h
            exact cons_ok (.recurse par) ts par (by simp [vtokS]) hts tree h
          · simp only [hx, if_false] at h
            cases ho : opener? ch with
            | some pc =>
              obtain ⟨cls, cl⟩ := pc
              simp only [ho] at h
              have hgb := gb_pres VQ ts [cl] [] [] hts (by intro x hx; simp at hx) (by intro b hb; simp at hb)
              cases hs : buildS (parse n) par cls (gb ts [cl] [] []).1 with
              | error e => simp [hs, bind, Except.bind] at h
              | ok s =>
                have hvs := buildS_vtok (parse n) (fun ts' par' r hq' hr' => ih ts' par' r hq' hr') par cls _ hgb.1 s hs
                simp only [hs, bind, Except.bind] at h
                exact cons_ok s _ par hvs hgb.2 tree h
            | none =>
              simp only [ho] at h
              by_cases hm : monadicMods.contains ch = true
              · simp only [hm, if_true] at h
                cases ts with
                | nil => simp at h; subst h; simp [vtokL]
                | cons u us =>
                  simp only at h
                  cases h1 : parse n (u :: us) .mon with
                  | error e => simp [h1, bind, Except.bind] at h
                  | ok rem =>
                    have hrem := ih (u :: us) .mon rem hts h1
                    simp only [h1, bind, Except.bind] at h
                    cases rem with
                    | nil => simp at h
                    | cons a r =>
                      simp only [vtokL, Bool.and_eq_true] at hrem
                      simp only at h
                      split at h <;> (simp [pure, Except.pure] at h; subst h; simp [vtokL, vtokS, hrem.1, hrem.2])
              · have hm' : monadicMods.contains ch = false := by simpa using hm
                simp only [hm', Bool.false_eq_true, if_false] at h
                by_cases hd : dyadicMods.contains ch = true
                · simp only [hd, if_true] at h
                  cases ts with
                  | nil => simp at h; subst h; simp [vtokL]
                  | cons u us =>
                    simp only at h
                    cases h1 : parse n (u :: us) .dy with
                    | error e => simp [h1, bind, Except.bind] at h
                    | ok rem =>
                      have hrem := ih (u :: us) .dy rem hts h1
                      simp only [h1, bind, Except.bind] at h
                      match rem, hrem, h with
                      | [], _, h => simp at h
                      | [_], _, h => simp at h
                      | a :: b :: r, hrem, h =>
                        simp only [vtokL, Bool.and_eq_true] at hrem
                        simp only at h
                        split at h <;> (simp [pure, Except.pure] at h; subst h; simp [vtokL, vtokS, hrem.1, hrem.2.1, hrem.2.2])
                · have hd' : dyadicMods.contains ch = false := by simpa using hd
                  simp only [hd', Bool.false_eq_true, if_false] at h
                  by_cases htr : triadicMods.contains ch = true
                  · simp only [htr, if_true] at h
                    cases ts with
                    | nil => simp at h; subst h; simp [vtokL]
                    | cons u us =>
                      simp only at h
                      cases h1 : parse n (u :: us) .tri with
                      | error e => simp [h1, bind, Except.bind] at h
                      | ok rem =>
                        have hrem := ih (u :: us) .tri rem hts h1
                        simp only [h1, bind, Except.bind] at h
                        match rem, hrem, h with
                        | [], _, h => simp at h
                        | [_], _, h => simp at h
                        | [_, _], _, h => simp at h
                        | a :: b :: c :: r, hrem, h =>
                          simp only [vtokL, Bool.and_eq_true] at hrem
                          simp [pure, Except.pure] at h; subst h
                          simp [vtokL, vtokS, hrem.1, hrem.2.1, hrem.2.2.1, hrem.2.2.2]
                  · have htr' : triadicMods.contains ch = false := by simpa using htr
                    simp only [htr', Bool.false_eq_true, if_false] at h
                    by_cases hcl : (isCloserCh ch || ch = 32 || ch = cBar) = true
                    · simp only [hcl, if_true] at h
                      exact ih ts par tree hts h
                    · have hcl' : (isCloserCh ch || ch = 32 || ch = cBar) = false := by simpa using hcl
                      simp only [hcl', Bool.false_eq_true, if_false] at h
                      exact cons_ok (.generic t) ts par (by simp only [vtokS]; exact ht) hts tree h

/-- … in particular for the tokens of any source string (`lexOK`: the lexer's guarantee, `C18.lex_variable_letters`) -/
theorem parseTop_vtok (ts : List Token) (hq : ∀ t ∈ ts, (t.kind = .vget ∨ t.kind = .vset) → ∀ c ∈ t.value, isLetter c = true)
    (tree : List Structure) (h : parseTop ts = .ok tree) : vtokL tree = true := by
  apply parse_vtok _ ts .none tree _ h
  intro t ht
  unfold VQ vtokOK
  cases hk : t.kind <;> simp only
  · exact List.all_eq_true.mpr (hq t ht (Or.inl hk))
  · exact List.all_eq_true.mpr (hq t ht (Or.inr hk))

end Vy
