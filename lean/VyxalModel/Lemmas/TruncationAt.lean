import VyxalModel.Lemmas.Truncation
/-!
# C04 with `@`: appending pending closers does not change the parse, function definitions / references included

`atOK n ts` follows the parser's recursion (like `hdrOK` of C03): wherever a `@` structure is still open at the end of its
token list *and still in its header* (no `|` yet), the header has no pending opener of its own.  That is the one place
where a trailing closer would be read as text (`@f[` gives the name `f[`, `@f[];` the name `f[]`).
-/
open Vy

def atOK : Nat → List Token → Bool
  | 0, _ => true
  | _ + 1, [] => true
  | n + 1, t :: ts =>
    match t.isGen1 with
    | none => atOK n ts
    | some ch =>
      match opener? ch with
      | some (cls, cl) =>
        (if cls = .fnCall ∧ (gbRun ts [cl] [] []).isSome = true ∧ (gb ts [cl] [] []).1.length = 1 then
           scan [] ((gb ts [cl] [] []).1.getLast?.getD []) == [] else true) &&
        atOK n ((gb ts [cl] [] []).1.getLast?.getD []) && atOK n (gb ts [cl] [] []).2
      | none => atOK n ts

/-- `buildS_congr` for every class: a function header is only read from the first branch -/
theorem buildS_congr_at (p : List Token → Parent → Except Err (List Structure)) (par cls : Parent)
    (D : List (List Token)) (L L' : List Token) (hfn : cls = .fnCall → D ≠ []) (hp : ∀ c, p L' c = p L c) :
    buildS p par cls (D ++ [L']) = buildS p par cls (D ++ [L]) := by
  by_cases hc : cls = .fnCall
  · subst hc
    have hD := hfn rfl
    cases D with
    | nil => exact absurd rfl hD
    | cons a as =>
      have hl : ∀ X : List Token, (a :: (as ++ [X])).getLast?.getD [] = X := by
        intro X
        have e : a :: (as ++ [X]) = (a :: as) ++ [X] := rfl
        rw [e, List.getLast?_append]
        simp
      simp only [buildS, List.cons_append, List.head?_cons, Option.getD_some, List.length_cons, List.length_append, hl, hp]
      rfl
  · exact buildS_congr p par cls D L L' hc hp

theorem parse_closers_at : ∀ (n : Nat) (ts : List Token) (par : Parent) (cs : List Nat),
    cs <+: scan [] ts → atOK n ts = true → parse n (ts ++ toks cs) par = parse n ts par := by
  intro n
  induction n with
  | zero => intro ts par cs _ _; simp [parse]
  | succ n ih =>
    intro ts par cs hpre hq
    cases ts with
    | nil =>
      have : cs = [] := by simpa [scan] using hpre
      subst this; simp [toks]
    | cons t ts' =>
      rw [scan_cons] at hpre
      rw [List.cons_append]
      -- non-opener heads leave the scan stack empty
      have hnon : (∀ ch, t.isGen1 = some ch → opener? ch = none) →
          ∀ p, parse n (ts' ++ toks cs) p = parse n ts' p := by
        intro h p
        rw [scanStep_nil_nonopener h] at hpre
        have hq' : atOK n ts' = true := by
          unfold atOK at hq
          cases hg' : t.isGen1 with
          | none => simpa [hg'] using hq
          | some ch' => simpa [hg', h ch' hg'] using hq
        exact ih ts' p cs hpre hq'
      cases hg : t.isGen1 with
      | none =>
        have := hnon (by intro ch h; rw [hg] at h; simp at h) par
        simp only [parse, hg, this]
      | some ch =>
        cases ho : opener? ch with
        | none =>
          have hp := hnon (by intro ch' h; rw [hg] at h; simp at h; subst h; exact ho)
          -- the tail is empty on both sides or on neither
          have hnil : ts' = [] → cs = [] := by
            intro e; subst e
            rw [scanStep_nil_nonopener (by intro ch' h; rw [hg] at h; simp at h; subst h; exact ho)] at hpre
            simpa [scan] using hpre
          cases ts' with
          | nil =>
            have := hnil rfl; subst this; simp [toks]
          | cons u us =>
            simp only [parse, hg, ho, List.cons_append] at hp ⊢
            simp only [hp]
        | some p =>
          obtain ⟨cls, cl⟩ := p
          obtain ⟨hclc, hfn⟩ := opener_closer ho
          -- what `atOK` says about this structure
          have hat : (if cls = .fnCall ∧ (gbRun ts' [cl] [] []).isSome = true ∧ (gb ts' [cl] [] []).1.length = 1 then
                scan [] ((gb ts' [cl] [] []).1.getLast?.getD []) == [] else true) = true ∧
              atOK n ((gb ts' [cl] [] []).1.getLast?.getD []) = true ∧ atOK n (gb ts' [cl] [] []).2 = true := by
            unfold atOK at hq
            simp only [hg, ho, Bool.and_eq_true] at hq
            exact ⟨hq.1.1, hq.1.2, hq.2⟩
          have hX : ch ≠ cX := by intro e; subst e; simp [opener?, cX] at ho
          have hx : ch ≠ cx := by intro e; subst e; simp [opener?, cx] at ho
          have hstep : scanStep [] t = [cl] := by simp [scanStep, hg, ho]
          rw [hstep] at hpre
          have hstk : ∀ c ∈ scan [cl] ts', isCloserCh c = true :=
            scan_closers ts' [cl] (by intro c hc; simp at hc; subst hc; exact hclc)
          have hcsc : ∀ c ∈ cs, isCloserCh c = true := fun c hc => hstk c (hpre.subset hc)
          simp only [parse, hg, ho, hX, hx, if_false]
          cases hrun : gbRun ts' [cl] [] [] with
          | none =>
            -- the structure closes inside ts'
            have hgb := gb_append_closed ts' (toks cs) [cl] [] [] (by simp) hrun
            have hsc := scan_closed ts' [cl] [] [] (by simp) hrun
            rw [hsc] at hpre
            rw [hgb]
            simp only
            rw [ih _ par cs hpre hat.2.2]
          | some r =>
            obtain ⟨st2, d2, c2⟩ := r
            have hres := gb_open_result ts' [cl] [] [] st2 d2 c2 (by simp) hrun
            have hst2 := gbRun_scan ts' [cl] [] [] st2 d2 c2 hrun
            have hinv : GInv cl st2 c2 := gbRun_inv cl ts' [cl] [] [] st2 d2 c2 (by simp [GInv, scan]) hrun
            -- the facts `atOK` gives, with the branches spelled out
            have hlast : (gb ts' [cl] [] []).1.getLast?.getD [] = c2.reverse := by
              rw [hres, finish_eq]; simp
            have hlen : (gb ts' [cl] [] []).1.length = d2.length + 1 := by
              rw [hres, finish_eq]; simp
            have hL : atOK n c2.reverse = true := by rw [← hlast]; exact hat.2.1
            have hhdr : cls = .fnCall → d2 = [] → scan [] c2.reverse = [] := by
              intro hc hd
              have h1 := hat.1
              rw [hrun] at h1
              simp only [hc, Option.isSome_some, hlen, hd, List.length_nil, Nat.zero_add, and_self, if_true, hlast,
                beq_iff_eq] at h1
              exact h1
            rw [← hst2] at hpre hstk
            unfold GInv at hinv
            have happ := gb_append_open ts' (toks cs) [cl] [] [] st2 d2 c2 (by simp) hrun
            -- in both cases the new branches are the old ones with a prefix of the inner closers on the last one
            have key : ∃ cs', cs' <+: scan [] c2.reverse ∧
                gb (ts' ++ toks cs) [cl] [] [] = (d2.reverse ++ [c2.reverse ++ toks cs'], []) := by
              rw [hinv] at hpre
              rcases prefix_snoc hpre with hfull | hpart
              · refine ⟨scan [] c2.reverse, List.prefix_refl _, ?_⟩
                rw [happ, hfull, hinv]
                have := gb_closers_full (scan [] c2.reverse) cl d2 c2
                  (by intro c hc; exact hstk c (by rw [hinv]; simp [hc])) hclc
                rw [this, toks_reverse_finish]
              · refine ⟨cs, hpart, ?_⟩
                obtain ⟨r, hr⟩ := hpart
                rw [happ, hinv, ← hr, List.append_assoc]
                have := gb_closers_partial cs (r ++ [cl]) d2 c2 hcsc (by simp)
                rw [this, toks_reverse_finish]
            obtain ⟨cs', hcs', hkey⟩ := key
            rw [hkey, hres, finish_eq]
            simp only
            have hp : ∀ c, parse n (c2.reverse ++ toks cs') c = parse n c2.reverse c :=
              fun c => ih c2.reverse c cs' hcs' hL
            by_cases hfc : cls = .fnCall ∧ d2 = []
            · -- an unclosed `@name`: the header has nothing pending, so nothing was appended to it
              have hnone := hhdr hfc.1 hfc.2
              rw [hnone] at hcs'
              have : cs' = [] := by simpa using hcs'
              subst this
              simp [toks]
            · have hfn' : cls = .fnCall → d2.reverse ≠ [] := by
                intro hc hd
                apply hfc
                exact ⟨hc, by simpa using hd⟩
              rw [buildS_congr_at (parse n) par cls d2.reverse c2.reverse (c2.reverse ++ toks cs') hfn' hp]


#print axioms parse_closers_at

/-- token lists without `@` satisfy `atOK` at every fuel: the `@`-free theorem is a corollary -/
theorem atOK_of_noAt : ∀ (n : Nat) (ts : List Token), AllQ noAt ts → atOK n ts = true := by
  intro n
  induction n with
  | zero => intro ts _; simp [atOK]
  | succ n ih =>
    intro ts hq
    cases ts with
    | nil => simp [atOK]
    | cons t ts' =>
      have ht : noAt t := hq t (by simp)
      have hq' : AllQ noAt ts' := fun x hx => hq x (by simp [hx])
      cases hg : t.isGen1 with
      | none => simp only [atOK, hg]; exact ih ts' hq'
      | some ch =>
        cases ho : opener? ch with
        | none => simp only [atOK, hg, ho]; exact ih ts' hq'
        | some p =>
          obtain ⟨cls, cl⟩ := p
          have hcls : cls ≠ .fnCall := by
            intro e
            have := (opener_closer ho).2 e
            subst this
            exact ht hg
          have hp := gb_pres noAt ts' [cl] [] [] hq' (by intro x hx; simp at hx) (by intro b hb; simp at hb)
          have h1 : AllQ noAt ((gb ts' [cl] [] []).1.getLast?.getD []) := by
            cases hl : (gb ts' [cl] [] []).1.getLast? with
            | none => intro x hx; simp at hx
            | some b => exact hp.1 b (List.mem_of_getLast? hl)
          simp only [atOK, hg, ho, hcls, false_and, if_false, Bool.true_and, Bool.and_eq_true]
          exact ⟨ih _ h1, ih _ hp.2⟩
#print axioms atOK_of_noAt
