import VyxalModel.Model.Parser
open Vy

/-- what `_get_branches` does on one token, as a state machine.
    State: stack (head innermost), finished branches (reversed), current branch (reversed).
    `none` = the outermost structure was closed by this token. -/
def gbStep (t : Token) (st : List Nat) (done : List (List Token)) (cur : List Token) :
    Option (List Nat × List (List Token) × List Token) :=
  match st with
  | [] => none
  | c :: st' =>
    match t.isGen1 with
    | some ch =>
      match opener? ch with
      | some (_, cl) => some (cl :: c :: st', done, t :: cur)
      | none =>
        if ch = cBar then
          (match st' with
           | [] => some ([c], cur.reverse :: done, [])
           | _ :: _ => some (c :: st', done, t :: cur))
        else if isCloserCh ch then
          if ch = c then
            (match st' with
             | [] => none
             | _ :: _ => some (st', done, t :: cur))
          else some (c :: st', done, cur)
        else some (c :: st', done, t :: cur)
    | none => some (c :: st', done, t :: cur)

/-- run over a token list; `none` if the structure closes inside it -/
def gbRun : List Token → List Nat → List (List Token) → List Token →
    Option (List Nat × List (List Token) × List Token)
  | [], st, done, cur => some (st, done, cur)
  | t :: ts, st, done, cur =>
    match gbStep t st done cur with
    | none => none
    | some (st', done', cur') => gbRun ts st' done' cur'

def finish (done : List (List Token)) (cur : List Token) : List (List Token) := (cur.reverse :: done).reverse

theorem gbStep_ne {t st done cur st' d c} (h : gbStep t st done cur = some (st', d, c)) : st' ≠ [] := by
  unfold gbStep at h
  split at h
  · simp at h
  · rename_i c0 s0
    split at h
    · rename_i ch hch
      split at h
      · simp at h; rw [← h.1]; simp
      · split at h
        · split at h <;> (simp at h; rw [← h.1]; simp)
        · split at h
          · split at h
            · split at h
              · simp at h
              · simp at h; rw [← h.1]; simp
            · simp at h; rw [← h.1]; simp
          · simp at h; rw [← h.1]; simp
    · simp at h; rw [← h.1]; simp

/-- one unfolding of `gb` in terms of the step function -/
theorem gb_cons (t : Token) (ts : List Token) (c : Nat) (s : List Nat) (done cur) :
    gb (t :: ts) (c :: s) done cur =
      match gbStep t (c :: s) done cur with
      | some (st', d', c') => gb ts st' d' c'
      | none => (finish done cur, ts) := by
  simp only [gb, gbStep, finish]
  cases t.isGen1 with
  | none => rfl
  | some ch =>
    simp only
    cases opener? ch with
    | some p => rfl
    | none =>
      simp only
      by_cases hb : ch = cBar
      · simp only [hb, if_true]; cases s <;> rfl
      · simp only [hb, if_false]
        by_cases hc : isCloserCh ch = true
        · simp only [hc, if_true]
          by_cases he : ch = c
          · simp only [he, if_true]; cases s <;> rfl
          · simp only [he, if_false]
        · simp only [hc]; rfl

/-- if the structure stays open over `a`, `gb` on `a ++ b` continues on `b` from the reached state -/
theorem gb_append_open (a b : List Token) : ∀ st done cur st' done' cur',
    st ≠ [] → gbRun a st done cur = some (st', done', cur') →
    gb (a ++ b) st done cur = gb b st' done' cur' := by
  induction a with
  | nil => intro st done cur st' done' cur' _ h; simp [gbRun] at h; obtain ⟨rfl, rfl, rfl⟩ := h; rfl
  | cons t ts ih =>
    intro st done cur st' done' cur' hne h
    cases st with
    | nil => exact absurd rfl hne
    | cons c s =>
      simp only [gbRun] at h
      cases hs : gbStep t (c :: s) done cur with
      | none => rw [hs] at h; simp at h
      | some r =>
        obtain ⟨st1, done1, cur1⟩ := r
        rw [hs] at h
        simp only at h
        rw [List.cons_append, gb_cons, hs]
        exact ih st1 done1 cur1 st' done' cur' (gbStep_ne hs) h

/-- if the structure closes inside `a`, whatever follows is left unread -/
theorem gb_append_closed (a b : List Token) : ∀ st done cur,
    st ≠ [] → gbRun a st done cur = none →
    gb (a ++ b) st done cur = ((gb a st done cur).1, (gb a st done cur).2 ++ b) := by
  induction a with
  | nil => intro st done cur _ h; simp [gbRun] at h
  | cons t ts ih =>
    intro st done cur hne h
    cases st with
    | nil => exact absurd rfl hne
    | cons c s =>
      simp only [gbRun] at h
      rw [List.cons_append, gb_cons, gb_cons]
      cases hs : gbStep t (c :: s) done cur with
      | none => simp
      | some r =>
        obtain ⟨st1, done1, cur1⟩ := r
        rw [hs] at h
        simp only at h ⊢
        exact ih st1 done1 cur1 (gbStep_ne hs) h

#print axioms gb_append_open
#print axioms gb_append_closed

def tok (c : Nat) : Token := ⟨.general, [c]⟩
def toks (cs : List Nat) : List Token := cs.map tok

theorem closer_facts {c : Nat} (h : isCloserCh c = true) : opener? c = none ∧ c ≠ cBar := by
  simp only [isCloserCh, Bool.or_eq_true, decide_eq_true_eq] at h
  rcases h with (((h | h) | h) | h) | h <;> subst h <;> simp [opener?, cBar]

theorem gbStep_closer {c : Nat} (hc : isCloserCh c = true) (s : List Nat) (done cur) :
    gbStep (tok c) (c :: s) done cur =
      match s with
      | [] => none
      | _ :: _ => some (s, done, tok c :: cur) := by
  obtain ⟨ho, hb⟩ := closer_facts hc
  simp only [gbStep, tok, Token.isGen1, ho, hb, hc, if_true, if_false]

/-- feeding the innermost closers one by one peels the stack and appends them to the current branch -/
theorem closers_run (cs : List Nat) : ∀ (rest : List Nat) (done cur),
    (∀ c ∈ cs, isCloserCh c = true) → rest ≠ [] →
    gbRun (toks cs) (cs ++ rest) done cur = some (rest, done, (toks cs).reverse ++ cur) := by
  induction cs with
  | nil => intro rest done cur _ _; simp [toks, gbRun]
  | cons c cs ih =>
    intro rest done cur hcl hne
    have hc : isCloserCh c = true := hcl c (by simp)
    have hne' : cs ++ rest ≠ [] := by simp [hne]
    simp only [toks, List.map_cons, List.cons_append, gbRun]
    rw [gbStep_closer hc]
    cases hs : cs ++ rest with
    | nil => exact absurd hs hne'
    | cons d s' =>
      simp only
      rw [← hs]
      have := ih rest done (tok c :: cur) (fun x hx => hcl x (by simp [hx])) hne
      simp only [toks] at this
      rw [this]
      simp

/-- a proper prefix of the pending closers: everything is read, the closers join the last branch -/
theorem gb_closers_partial (cs rest : List Nat) (done cur)
    (hcl : ∀ c ∈ cs, isCloserCh c = true) (hne : rest ≠ []) :
    gb (toks cs) (cs ++ rest) done cur = (finish done ((toks cs).reverse ++ cur), []) := by
  have h := gb_append_open (toks cs) [] (cs ++ rest) done cur _ _ _ (by simp [hne]) (closers_run cs rest done cur hcl hne)
  simp only [List.append_nil] at h
  rw [h]
  cases rest with
  | nil => exact absurd rfl hne
  | cons r rs => simp [gb, finish]

/-- all pending closers: the outermost one ends the structure and is not part of any branch -/
theorem gb_closers_full (cs : List Nat) (b : Nat) (done cur)
    (hcl : ∀ c ∈ cs, isCloserCh c = true) (hb : isCloserCh b = true) :
    gb (toks (cs ++ [b])) (cs ++ [b]) done cur = (finish done ((toks cs).reverse ++ cur), []) := by
  have h := gb_append_open (toks cs) [tok b] (cs ++ [b]) done cur _ _ _ (by simp) (closers_run cs [b] done cur hcl (by simp))
  simp only [toks, List.map_append, List.map_cons, List.map_nil] at h ⊢
  rw [h, gb_cons, gbStep_closer hb]

#print axioms gb_closers_full
#print axioms gb_closers_partial

/-! flat bracket scan: the stack of pending closers after reading a token list -/
def scanStep (st : List Nat) (t : Token) : List Nat :=
  match t.isGen1 with
  | some ch =>
    match opener? ch with
    | some (_, cl) => cl :: st
    | none =>
      if isCloserCh ch then
        (match st with
         | c :: st' => if ch = c then st' else st
         | [] => [])
      else st
  | none => st

def scan (st : List Nat) (ts : List Token) : List Nat := ts.foldl scanStep st

/-- the stack of `_get_branches` is the flat scan: one step -/
theorem gbStep_scan {t st done cur st' d c} (h : gbStep t st done cur = some (st', d, c)) :
    st' = scanStep st t := by
  cases st with
  | nil => simp [gbStep] at h
  | cons c0 s0 =>
    cases hg : t.isGen1 with
    | none => simp [gbStep, scanStep, hg] at h ⊢; exact h.1.symm
    | some ch =>
      cases ho : opener? ch with
      | some p => obtain ⟨cls, cl⟩ := p; simp [gbStep, scanStep, hg, ho] at h ⊢; exact h.1.symm
      | none =>
        by_cases hb : ch = cBar
        · have hcb : isCloserCh ch = false := by subst hb; simp [isCloserCh, cBar]
          cases s0 <;> (simp [gbStep, scanStep, hg, ho, hb, hcb] at h ⊢) <;> (first | exact h.1.symm | (subst hb; simp_all [isCloserCh, cBar]))
        · by_cases hc : isCloserCh ch = true
          · by_cases he : ch = c0
            · subst he
              cases s0 with
              | nil => simp [gbStep, hg, ho, hb, hc] at h
              | cons d0 s1 => simp [gbStep, scanStep, hg, ho, hb, hc] at h ⊢; exact h.1.symm
            · simp [gbStep, scanStep, hg, ho, hb, hc, he] at h ⊢; exact h.1.symm
          · simp [gbStep, scanStep, hg, ho, hb, hc] at h ⊢; exact h.1.symm

theorem gbRun_scan (ts : List Token) : ∀ st done cur st' d c,
    gbRun ts st done cur = some (st', d, c) → st' = scan st ts := by
  induction ts with
  | nil => intro st done cur st' d c h; simp [gbRun] at h; simp [scan, h.1]
  | cons t ts ih =>
    intro st done cur st' d c h
    simp only [gbRun] at h
    cases hs : gbStep t st done cur with
    | none => rw [hs] at h; simp at h
    | some r =>
      obtain ⟨st1, d1, c1⟩ := r
      rw [hs] at h
      simp only at h
      have := ih st1 d1 c1 st' d c h
      rw [this, gbStep_scan hs]
      simp [scan]

#print axioms gbRun_scan

theorem scan_append (st : List Nat) (a b : List Token) : scan st (a ++ b) = scan (scan st a) b := by
  simp [scan, List.foldl_append]

theorem scan_snoc (st : List Nat) (a : List Token) (t : Token) : scan st (a ++ [t]) = scanStep (scan st a) t := by
  simp [scan, List.foldl_append]

/-- when `_get_branches` stops on a token, that token closed the outermost structure -/
theorem gbStep_none {t : Token} {c : Nat} {s : List Nat} {done cur}
    (h : gbStep t (c :: s) done cur = none) : s = [] ∧ scanStep [c] t = [] := by
  cases hg : t.isGen1 with
  | none => simp [gbStep, hg] at h
  | some ch =>
    cases ho : opener? ch with
    | some p => obtain ⟨cls, cl⟩ := p; simp [gbStep, hg, ho] at h
    | none =>
      by_cases hb : ch = cBar
      · subst hb
        cases s <;> simp [gbStep, hg, ho] at h
      · by_cases hc : isCloserCh ch = true
        · by_cases he : ch = c
          · subst he
            cases s with
            | nil => simp [scanStep, hg, ho, hc]
            | cons d s1 => simp [gbStep, hg, ho, hb, hc] at h
          · simp [gbStep, hg, ho, hb, hc, he] at h
        · simp [gbStep, hg, ho, hb, hc] at h

/-- closed case: the flat scan of what was read ends with an empty stack, so it continues on the unread rest -/
theorem scan_closed (ts : List Token) : ∀ st done cur,
    st ≠ [] → gbRun ts st done cur = none → scan st ts = scan [] (gb ts st done cur).2 := by
  induction ts with
  | nil => intro st done cur _ h; simp [gbRun] at h
  | cons t ts ih =>
    intro st done cur hne h
    cases st with
    | nil => exact absurd rfl hne
    | cons c s =>
      simp only [gbRun] at h
      rw [gb_cons]
      cases hs : gbStep t (c :: s) done cur with
      | none =>
        obtain ⟨hs0, hsc⟩ := gbStep_none hs
        subst hs0
        simp only [scan, List.foldl_cons] at hsc ⊢
        rw [hsc]
      | some r =>
        obtain ⟨st1, d1, c1⟩ := r
        rw [hs] at h
        simp only at h ⊢
        have := ih st1 d1 c1 (gbStep_ne hs) h
        rw [← this, gbStep_scan hs]
        simp [scan]

/-- invariant of `_get_branches`: the stack is the scan of the current branch on top of the outermost closer -/
def GInv (cl : Nat) (st : List Nat) (cur : List Token) : Prop := st = scan [] cur.reverse ++ [cl]

theorem gbStep_inv {cl t st done cur st' d c} (hi : GInv cl st cur)
    (h : gbStep t st done cur = some (st', d, c)) : GInv cl st' c := by
  unfold GInv at hi ⊢
  cases st with
  | nil => simp [gbStep] at h
  | cons c0 s0 =>
    cases hg : t.isGen1 with
    | none =>
      simp [gbStep, hg] at h
      obtain ⟨rfl, -, rfl⟩ := h
      simp only [List.reverse_cons, scan_snoc, scanStep, hg]; exact hi
    | some ch =>
      cases ho : opener? ch with
      | some p =>
        obtain ⟨cls, cl'⟩ := p
        simp [gbStep, hg, ho] at h
        obtain ⟨rfl, -, rfl⟩ := h
        simp only [List.reverse_cons, scan_snoc, scanStep, hg, ho]
        rw [hi]; simp
      | none =>
        by_cases hb : ch = cBar
        · have hcb : isCloserCh ch = false := by subst hb; simp [isCloserCh, cBar]
          subst hb
          cases s0 with
          | nil =>
            simp [gbStep, hg, ho] at h
            obtain ⟨rfl, -, rfl⟩ := h
            -- depth 1: new branch; the stack is just the outermost closer
            have : scan [] cur.reverse = [] ∧ c0 = cl := by
              cases hsc : scan [] cur.reverse with
              | nil => rw [hsc] at hi; simp at hi; exact ⟨rfl, hi⟩
              | cons x xs => rw [hsc] at hi; simp at hi
            simp [scan, this.2]
          | cons d0 s1 =>
            simp [gbStep, hg, ho] at h
            obtain ⟨rfl, -, rfl⟩ := h
            simp only [List.reverse_cons, scan_snoc, scanStep, hg, ho]
            simp only [hcb]; exact hi
        · by_cases hc : isCloserCh ch = true
          · by_cases he : ch = c0
            · subst he
              cases s0 with
              | nil => simp [gbStep, hg, ho, hb, hc] at h
              | cons d0 s1 =>
                simp [gbStep, hg, ho, hb, hc] at h
                obtain ⟨rfl, -, rfl⟩ := h
                simp only [List.reverse_cons, scan_snoc, scanStep, hg, ho, hc, if_true]
                -- inner stack is non-empty with top `ch`
                cases hsc : scan [] cur.reverse with
                | nil => rw [hsc] at hi; simp at hi
                | cons x xs =>
                  rw [hsc] at hi
                  simp at hi
                  obtain ⟨hx, hrest⟩ := hi
                  subst hx
                  simp [hrest]
            · simp [gbStep, hg, ho, hb, hc, he] at h
              obtain ⟨rfl, -, rfl⟩ := h
              exact hi
          · simp [gbStep, hg, ho, hb, hc] at h
            obtain ⟨rfl, -, rfl⟩ := h
            simp only [List.reverse_cons, scan_snoc, scanStep, hg, ho]
            simp only [hc]; exact hi

theorem gbRun_inv (cl : Nat) (ts : List Token) : ∀ st done cur st' d c,
    GInv cl st cur → gbRun ts st done cur = some (st', d, c) → GInv cl st' c := by
  induction ts with
  | nil => intro st done cur st' d c hi h; simp [gbRun] at h; obtain ⟨rfl, _, rfl⟩ := h; exact hi
  | cons t ts ih =>
    intro st done cur st' d c hi h
    simp only [gbRun] at h
    cases hs : gbStep t st done cur with
    | none => rw [hs] at h; simp at h
    | some r =>
      obtain ⟨st1, d1, c1⟩ := r
      rw [hs] at h
      exact ih st1 d1 c1 st' d c (gbStep_inv hi hs) h

#print axioms scan_closed
#print axioms gbRun_inv
