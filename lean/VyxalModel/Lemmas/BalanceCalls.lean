import VyxalModel.Lemmas.Balance
/-!
# Soundness of the delta typing with calls made explicit

`Lemmas/Balance.lean` treats an `other` statement (an assignment, an element call, a helper call) as leaving the four depths
unchanged.  Here that is no longer assumed: an `other` statement may **call** any of the callable bodies `F` (the functions
and lambdas the program defines, the helpers of the repository), any number of times, each call running the body from the
current depths to its end or to a `return`; bodies call each other and themselves.  If every body in `F` is accepted by the
checker as a function body (`FnOK`), every accepted piece of code restores the depths — by induction on the derivation,
which contains the derivations of all the calls made, so call depth and recursion need no separate argument.
-/
namespace Bal

/-- the check of `chkS (.defn b)`: a function body — every `return` and the implicit one at the end see zero net change -/
def FnOK (b : List Sk) : Prop :=
  ∃ r, chkL none (some D4.zero) D4.zero b = some r ∧ ∀ d, r = some d → d = D4.zero

mutual
inductive ExecSF (F : List (List Sk)) : Sk → D4 → D4 → Exit → Prop
  | ev (d c) : ExecSF F (.ev d) c (c.add d) .normal
  | other {c c'} : CallsF F c c' → ExecSF F .other c c' .normal
  | unknown (c c' x) : ExecSF F .unknown c c' x
  | ifT {t e c c' x} : ExecLF F t c c' x → ExecSF F (.ifS t e) c c' x
  | ifE {t e c c' x} : ExecLF F e c c' x → ExecSF F (.ifS t e) c c' x
  | brk (c) : ExecSF F .brk c c .brk
  | cont (c) : ExecSF F .cont c c .cont
  | ret (c) : ExecSF F .ret c c .ret
  | loop {b c c' x} : ExecLoopF F b c c' x → ExecSF F (.loop b) c c' x
  | defn (b c) : ExecSF F (.defn b) c c .normal
inductive ExecLF (F : List (List Sk)) : List Sk → D4 → D4 → Exit → Prop
  | nil (c) : ExecLF F [] c c .normal
  | consN {s rest c c1 c2 x} : ExecSF F s c c1 .normal → ExecLF F rest c1 c2 x → ExecLF F (s :: rest) c c2 x
  | consX {s rest c c1 x} : ExecSF F s c c1 x → x ≠ .normal → ExecLF F (s :: rest) c c1 x
inductive ExecLoopF (F : List (List Sk)) : List Sk → D4 → D4 → Exit → Prop
  | stop (b c) : ExecLoopF F b c c .normal
  | iterN {b c c1 c2 x} : ExecLF F b c c1 .normal → ExecLoopF F b c1 c2 x → ExecLoopF F b c c2 x
  | iterC {b c c1 c2 x} : ExecLF F b c c1 .cont → ExecLoopF F b c1 c2 x → ExecLoopF F b c c2 x
  | iterB {b c c1} : ExecLF F b c c1 .brk → ExecLoopF F b c c1 .normal
  | iterR {b c c1} : ExecLF F b c c1 .ret → ExecLoopF F b c c1 .ret
/-- what an `other` statement may do: any number of calls, each running one of the callable bodies from the depths at the
    call to its end or to a `return` -/
inductive CallsF (F : List (List Sk)) : D4 → D4 → Prop
  | done (c) : CallsF F c c
  | call {b c c1 c2 x} : b ∈ F → ExecLF F b c c1 x → (x = .normal ∨ x = .ret) → CallsF F c1 c2 → CallsF F c c2
end

mutual
theorem soundSF (F : List (List Sk)) (hF : ∀ b ∈ F, FnOK b) : ∀ {s c c' x}, ExecSF F s c c' x → ∀ lb fb cur r, chkS lb fb cur s = some r → Post lb fb cur r c c' x
  | _, _, _, _, .ev d c, lb, fb, cur, r, h => by
      simp [chkS] at h; subst h
      exact ⟨_, rfl, by simp only [Rel, D4.add]; refine ⟨?_, ?_, ?_, ?_⟩ <;> omega⟩
  | _, _, _, _, .other hc, lb, fb, cur, r, h => by
      simp [chkS] at h; subst h
      have hcc := callsNeutral F hF hc
      rw [hcc]
      exact ⟨_, rfl, Rel.refl _ _⟩
  | _, _, _, _, .unknown c c' x, lb, fb, cur, r, h => by simp [chkS] at h
  | _, _, _, _, .brk c, lb, fb, cur, r, h => by
      simp only [chkS] at h
      split at h
      · rename_i hl; exact ⟨cur, hl, Rel.refl _ _⟩
      · simp at h
  | _, _, _, _, .cont c, lb, fb, cur, r, h => by
      simp only [chkS] at h
      split at h
      · rename_i hl; exact ⟨cur, hl, Rel.refl _ _⟩
      · simp at h
  | _, _, _, _, .ret c, lb, fb, cur, r, h => by
      simp only [chkS] at h
      split at h
      · rename_i hl; exact ⟨cur, hl, Rel.refl _ _⟩
      · simp at h
  | _, _, _, _, .defn b c, lb, fb, cur, r, h => by
      simp only [chkS] at h
      cases hb : chkL none (some D4.zero) D4.zero b with
      | none => simp [hb] at h
      | some o =>
        cases o with
        | none => simp [hb] at h; subst h; exact ⟨_, rfl, Rel.refl _ _⟩
        | some x =>
          simp only [hb] at h
          split at h
          · simp at h; subst h; exact ⟨_, rfl, Rel.refl _ _⟩
          · simp at h
  | _, _, _, _, .ifT (t := t) (e := e) (x := x) ht, lb, fb, cur, r, h => by
      obtain ⟨a, b, ha, hb, hj⟩ := chkS_if h
      have p := soundLF F hF ht lb fb cur a ha
      cases x with
      | normal =>
        obtain ⟨d, hd, hr⟩ := p
        exact ⟨d, joinIf_left hj hd, hr⟩
      | brk => exact p
      | cont => exact p
      | ret => exact p
  | _, _, _, _, .ifE (t := t) (e := e) (x := x) he, lb, fb, cur, r, h => by
      obtain ⟨a, b, ha, hb, hj⟩ := chkS_if h
      have p := soundLF F hF he lb fb cur b hb
      cases x with
      | normal =>
        obtain ⟨d, hd, hr⟩ := p
        exact ⟨d, joinIf_right hj hd, hr⟩
      | brk => exact p
      | cont => exact p
      | ret => exact p
  | _, _, _, _, .loop (b := b) (x := x) hl, lb, fb, cur, r, h => by
      obtain ⟨hr, hb⟩ := chkS_loop h
      have p := soundLoopF F hF hl fb cur hb
      rcases p with ⟨hx, hrel⟩ | ⟨hx, f, hf, hrel⟩
      · subst hx; exact ⟨cur, hr, hrel⟩
      · subst hx; exact ⟨f, hf, hrel⟩
theorem soundLF (F : List (List Sk)) (hF : ∀ b ∈ F, FnOK b) : ∀ {l c c' x}, ExecLF F l c c' x → ∀ lb fb cur r, chkL lb fb cur l = some r → Post lb fb cur r c c' x
  | _, _, _, _, .nil c, lb, fb, cur, r, h => by
      simp [chkL] at h; subst h; exact ⟨_, rfl, Rel.refl _ _⟩
  | _, _, _, _, .consN (s := s) (rest := rest) (x := x) hs hr, lb, fb, cur, r, h => by
      rcases chkL_cons h with ⟨d, hsd, hrest⟩ | ⟨hsn, _⟩
      · obtain ⟨d', hd', hrel⟩ := soundSF F hF hs lb fb cur (some d) hsd
        have hdd : d' = d := by simpa using hd'.symm
        subst hdd
        have p := soundLF F hF hr lb fb d' r hrest
        cases x with
        | normal => obtain ⟨e, he, hr2⟩ := p; exact ⟨e, he, hrel.trans hr2⟩
        | brk => obtain ⟨e, he, hr2⟩ := p; exact ⟨e, he, hrel.trans hr2⟩
        | cont => obtain ⟨e, he, hr2⟩ := p; exact ⟨e, he, hrel.trans hr2⟩
        | ret => obtain ⟨e, he, hr2⟩ := p; exact ⟨e, he, hrel.trans hr2⟩
      · obtain ⟨d', hd', _⟩ := soundSF F hF hs lb fb cur none hsn
        simp at hd'
  | _, _, _, _, .consX (s := s) (rest := rest) (x := x) hs hx, lb, fb, cur, r, h => by
      rcases chkL_cons h with ⟨d, hsd, _⟩ | ⟨hsn, _⟩
      · have p := soundSF F hF hs lb fb cur (some d) hsd
        cases x with
        | normal => exact absurd rfl hx
        | brk => exact p
        | cont => exact p
        | ret => exact p
      · have p := soundSF F hF hs lb fb cur none hsn
        cases x with
        | normal => exact absurd rfl hx
        | brk => exact p
        | cont => exact p
        | ret => exact p
/-- a checked loop: it ends normally with the depths it started with, or returns with the function's delta -/
theorem soundLoopF (F : List (List Sk)) (hF : ∀ b ∈ F, FnOK b) : ∀ {b c c' x}, ExecLoopF F b c c' x → ∀ fb cur,
    (chkL (some cur) fb cur b = some (some cur) ∨ chkL (some cur) fb cur b = some none) →
    (x = .normal ∧ Rel c c' cur cur) ∨ (x = .ret ∧ ∃ f, fb = some f ∧ Rel c c' cur f)
  | _, _, _, _, .stop b c, fb, cur, _ => Or.inl ⟨rfl, Rel.refl _ _⟩
  | _, _, _, _, .iterN (c := c) (c1 := c1) (x := x) hb hl, fb, cur, hc => by
      have hrel : Rel c c1 cur cur := by
        rcases hc with hc | hc
        · obtain ⟨d, hd, hr⟩ := soundLF F hF hb (some cur) fb cur (some cur) hc
          have : d = cur := by simpa using hd.symm
          subst this; exact hr
        · obtain ⟨d, hd, _⟩ := soundLF F hF hb (some cur) fb cur none hc
          simp at hd
      rcases soundLoopF F hF hl fb cur hc with ⟨hx, h2⟩ | ⟨hx, f, hf, h2⟩
      · exact Or.inl ⟨hx, hrel.trans h2⟩
      · exact Or.inr ⟨hx, f, hf, hrel.trans h2⟩
  | _, _, _, _, .iterC (c := c) (c1 := c1) (x := x) hb hl, fb, cur, hc => by
      have hrel : Rel c c1 cur cur := by
        rcases hc with hc | hc
        · obtain ⟨d, hd, hr⟩ := soundLF F hF hb (some cur) fb cur (some cur) hc
          have : d = cur := by simpa using hd.symm
          subst this; exact hr
        · obtain ⟨d, hd, hr⟩ := soundLF F hF hb (some cur) fb cur none hc
          have : d = cur := by simpa using hd.symm
          subst this; exact hr
      rcases soundLoopF F hF hl fb cur hc with ⟨hx, h2⟩ | ⟨hx, f, hf, h2⟩
      · exact Or.inl ⟨hx, hrel.trans h2⟩
      · exact Or.inr ⟨hx, f, hf, hrel.trans h2⟩
  | _, _, _, _, .iterB hb, fb, cur, hc => by
      rcases hc with hc | hc
      · obtain ⟨d, hd, hr⟩ := soundLF F hF hb (some cur) fb cur (some cur) hc
        have : d = cur := by simpa using hd.symm
        subst this; exact Or.inl ⟨rfl, hr⟩
      · obtain ⟨d, hd, hr⟩ := soundLF F hF hb (some cur) fb cur none hc
        have : d = cur := by simpa using hd.symm
        subst this; exact Or.inl ⟨rfl, hr⟩
  | _, _, _, _, .iterR hb, fb, cur, hc => by
      rcases hc with hc | hc
      · obtain ⟨f, hf, hr⟩ := soundLF F hF hb (some cur) fb cur (some cur) hc
        exact Or.inr ⟨rfl, f, hf, hr⟩
      · obtain ⟨f, hf, hr⟩ := soundLF F hF hb (some cur) fb cur none hc
        exact Or.inr ⟨rfl, f, hf, hr⟩
/-- calls leave the depths where they were: each callee body is checked (`FnOK`), and its own calls are covered by the induction -/
theorem callsNeutral (F : List (List Sk)) (hF : ∀ b ∈ F, FnOK b) : ∀ {c c'}, CallsF F c c' → c' = c
  | _, _, .done c => rfl
  | _, _, .call (b := b) (c := c) (c1 := c1) (x := x) hb he hx hrest => by
      have h2 := callsNeutral F hF hrest
      have hr' := hF b hb
      have p := fun r hr => soundLF F hF he none (some D4.zero) D4.zero r hr
      obtain ⟨r, hr, hok⟩ := hr'
      have p := p r hr
      have h1 : c1 = c := by
        rcases hx with hx | hx
        · rw [hx] at p
          obtain ⟨d, hd, hrel⟩ := p
          have : d = D4.zero := hok d hd
          rw [this] at hrel; exact Rel_zero hrel
        · rw [hx] at p
          obtain ⟨f, hf, hrel⟩ := p
          have : f = D4.zero := by simpa using hf.symm
          rw [this] at hrel; exact Rel_zero hrel
      exact h2.trans h1
end

end Bal
