import VyxalModel.Model.Show
import VyxalModel.Model.Encoding
import VyxalModel.Model.Number
import VyxalModel.Model.Strings
import VyxalModel.Model.Transpile
import VyxalModel.Model.Placed
import VyxalModel.Model.LexerV
import VyxalModel.Lemmas.TruncationAt
import VyxalModel.Model.WFPy
import VyxalModel.Model.DictCompress
import VyxalModel.Model.Balance
import VyxalModel.Model.PyDump
import VyxalModel.Gen.Elements
import VyxalModel.Gen.Modifiers
import VyxalModel.Model.LazyList
import VyxalModel.Model.Input
import VyxalModel.Model.Num
import VyxalModel.Model.NumTheory
import VyxalModel.Model.Lists
import VyxalModel.Model.PopHelper
import VyxalModel.Model.Cartesian
import VyxalModel.Model.Vectorise
import VyxalModel.Model.Streams
import VyxalModel.Gen.Codepage
import VyxalModel.Gen.Dictionary
import VyxalModel.Model.RefSem
import VyxalModel.Model.PySem
/-! Line protocol: `cmd<TAB>argument`; one answer line per request. -/
open Vy

def genEnv (dict : Bool) : TEnv :=
  { elements := Gen.elements, modifiers := Gen.modifiers, codepage := Gen.codepage, numCompress := Gen.numCompress,
    strCompress := Gen.strCompress, base27 := Gen.base27, compression := Gen.compression, dictCompress := dict,
    small := Gen.smallDictionary, contents := Gen.dictionaryContents }

def showTErr : TErr → String
  | .badTemplate k => "ERR badTemplate " ++ strS k
  | .stringSyntax => "ERR stringSyntax"
  | .unmodelled => "ERR unmodelled"

/-- `transpile(src, dict_compress)` : tokenise, parse, transpile; canonical AST dump -/
def transpileCmd (dict : Bool) (src : List Nat) : String :=
  match parseTop (tokenise src) with
  | .error e => s!"ERR parse {repr e}"
  | .ok tree => match transpileAst (genEnv dict) tree with
    | .ok py => PyAst.dumpSL py
    | .error e => showTErr e

/-- C02: is every `X` / `x` where `parse` says (hypothesis of `transpile_wf`), and is the emitted tree well formed -/
def placedCmd (src : List Nat) : String :=
  match parseTop (tokenise src) with
  | .error e => s!"ERR parse {repr e}"
  | .ok tree =>
    let p := if placedL false false tree then "T" else "F"
    let v := if vtokL tree then "T" else "F"
    let b := if bplL .plain tree then "T" else "F"
    match transpileAst (genEnv false) tree with
    | .ok py => s!"placed={p} vtok={v} bpl={b} wf={if PyAst.wfL false false py then "T" else "F"} bal={if Bal.balancedTop py then "T" else "F"}"
    | .error e => s!"placed={p} vtok={v} bpl={b} wf=ERR {showTErr e}"

/-- C04: the hypothesis of `parse_append_closers` on the lexed program, and the pending closers (`scan`) -/
def atokCmd (src : List Nat) : String :=
  let ts := tokenise src
  let pend := scan [] ts
  s!"atok={if atOK (2 * ts.length + 2) ts then "T" else "F"} pend={" ".intercalate (pend.map toString)}"

def dictMaxLen : Nat := Gen.dictionaryContents.foldl (fun m w => max m w.length) 0

def parseIntS (s : String) : Int := s.toInt?.getD 0
def parseOptInt (s : String) : Option Int := if s == "N" then none else s.toInt?
def parseInts (s : String) : List Int := if s.isEmpty then [] else (s.splitOn " ").filterMap String.toInt?

def parseObs (src : List Int) (s : String) : Option LLM.Obs :=
  match s.splitOn ":" with
  | ["g", i] => some (.getItem (parseIntS i))
  | ["s", a, b, c] => some (.slice (parseOptInt a) (parseOptInt b) ((parseOptInt c).getD 1))
  | ["len"] => some .len | ["iter"] => some .iter | ["bool"] => some .bool
  | ["c", x] => some (.contains (parseIntS x))
  | ["e", k] => some (.eq (match k with | "0" => src | "1" => src ++ [0] | _ => []))
  | ["n", x] => some (.count (parseIntS x))
  | ["rev"] => some .reversed | ["copy"] => some .copy | ["lst"] => some .listify
  | ["copyg", i] => some (.copyGet (parseIntS i))
  | ["nop"] => some .nop
  | _ => none

def showAns : LLM.Ans → String
  | .int i => toString i
  | .list l => "[" ++ ",".intercalate (l.map toString) ++ "]"
  | .err => "ERR IndexError"

def llCmd (arg : String) : String :=
  match arg.splitOn "|" with
  | [srcS, opsS] =>
    let src := parseInts srcS
    let ops := (if opsS.isEmpty then [] else opsS.splitOn " ").filterMap (parseObs src)
    let (as, _) := LLM.runObs (LLM.LL.fresh src) ops
    " ; ".intercalate (as.map showAns)
  | _ => "BADARG"

def parseInpOp (s : String) : Option Inp.Op :=
  match s.splitOn ":" with
  | ["e"] => some .explicit
  | ["i"] => some .implicit
  | ["l"] => some .leave
  | ["n"] => some (.enter [])
  | ["n", a] => some (.enter ((a.splitOn ",").filterMap String.toInt?))
  | _ => none

def inpCmd (arg : String) : String :=
  match arg.splitOn "|" with
  | [insS, opsS] =>
    let ops := (if opsS.isEmpty then [] else opsS.splitOn " ").filterMap parseInpOp
    let r := Inp.run ops (Inp.St.init (parseInts insS))
    " ".intercalate (r.map (fun o => match o with
      | none => "-"
      | some (true, v) => s!"T{v}"
      | some (false, v) => s!"S{v}"))
  | _ => "BADARG"

def parseNum (rep p q : String) : NumM.Num :=
  let r : NumM.Rep := match rep with | "i" => .pyInt | "I" => .symInt | _ => .symRat
  ⟨mkRat (parseIntS p) (parseIntS q).toNat, r⟩

def showNum (n : NumM.Num) : String :=
  (match n.rep with | .pyInt => "i" | .symInt => "I" | .symRat => "R") ++ s!" {n.val.num}/{n.val.den}"

def arithCmd (arg : String) : String :=
  match arg.splitOn " " with
  | [op, ra, pa, qa, rb, pb, qb] =>
    let o : Option NumM.Op := match op with
      | "add" => some .add | "sub" => some .sub | "mul" => some .mul | "div" => some .div
      | "idiv" => some .idiv | "mod" => some .mod | _ => none
    (match o with
     | some o => showNum (NumM.apply o (parseNum ra pa qa) (parseNum rb pb qb))
     | none => "BADOP")
  | _ => "BADARG"

def showNats (l : List Nat) : String := "[" ++ ",".intercalate (l.map toString) ++ "]"
def showOptNat : Option Nat → String
  | some n => toString n
  | none => "none"

/-- `nt <fn> <args…>` : the reference number-theory functions -/
def ntCmd (arg : String) : String :=
  match arg.splitOn " " with
  | ["isprime", n] => if NT.isPrimeB n.toNat! then "1" else "0"
  | ["divisors", n] => showNats (NT.divisorsL n.toNat!)
  | ["fact", n] => toString (NT.fact n.toNat!)
  | ["choose", n, k] => toString (NT.choose n.toNat! k.toNat!)
  | ["totient", n] => toString (NT.totient n.toNat!)
  | ["gcd", a, b] => toString (Nat.gcd a.toNat! b.toNat!)
  | ["lcm", a, b] => toString (NT.lcm a.toNat! b.toNat!)
  | ["pf", n] => showNats (NT.primeFactors n.toNat!)
  | ["pfd", n] => showNats (NT.primeFactorsDistinct n.toNat!)
  | ["nextprime", n] => showOptNat (NT.nextPrime n.toNat!)
  | ["prevprime", n] => showOptNat (NT.prevPrime n.toNat!)
  | ["divsum", n] => toString (NT.divisorSum n.toNat!)
  | ["issquare", n] => if NT.isSquareB n.toNat! then "1" else "0"
  | ["bin", n] => showNats (NT.binDigits n.toNat!)
  | ["r1", n] => showNats (NT.inclusiveOneRange n.toNat!)
  | ["r1x", n] => showNats (NT.exclusiveOneRange n.toNat!)
  | ["r0", n] => showNats (NT.inclusiveZeroRange n.toNat!)
  | ["r0x", n] => showNats (NT.exclusiveZeroRange n.toNat!)
  | _ => "BADARG"

def showInts (l : List Int) : String := "[" ++ ",".intercalate (l.map toString) ++ "]"
def showIntss (l : List (List Int)) : String := "[" ++ ",".intercalate (l.map showInts) ++ "]"

/-- C09: `pophelper <k>|<stack, top last>|<retain T/F><reverse T/F>` — inputs are 100, 101, … -/
def popHelperCmd (arg : String) : String :=
  match arg.splitOn "|" with
  | [k, st, fl] =>
    let r := PopH.pop (fun i => (100 + i : Int)) (fl.startsWith "T") (fl.endsWith "T") k.toNat! (parseInts st)
    s!"{showInts r.popped} {showInts r.stack} {r.reads}"
  | _ => "BADARG"


/-- `ls <fn>|<list>|<second argument>` : the list builtin models -/
def lsCmd (arg : String) : String :=
  match arg.splitOn "|" with
  | [fn, a, b] =>
    let l := parseInts a
    (match fn with
     | "uniquify" => showInts (Ls.uniquify l)
     | "cumsum" => showInts (Ls.cumulativeSum l)
     | "deltas" => showInts (Ls.deltas l)
     | "interleave" => showInts (Ls.interleave l (parseInts b))
     | "uninterleave" => showIntss [(Ls.uninterleave l).1, (Ls.uninterleave l).2]
     | "wrap" => showIntss (Ls.wrapK l (b.toNat?.getD 0))
     | "prefixes" => showIntss (Ls.prefixes l)
     | "group" => showIntss (Ls.groupConsecutive l)
     | "counts" => "[" ++ ",".intercalate ((Ls.counts l).map (fun p => s!"[{p.1},{p.2}]")) ++ "]"
     | "sort" => showInts (Ls.vySort l)
     | "sum" => toString (Ls.vySum l)
     | "product" => toString (Ls.vyProduct l)
     | "reverse" => showInts l.reverse
     | "powerset" => showIntss (Ls.powerset l)
     | "permutations" => showIntss (Ls.permutations l)
     | "cartesian" => let r := parseInts b; showIntss ((Ls.cartesian l r (l.length - 1) (r.length - 1)).map (fun p => [p.1, p.2]))
     | "cartesianlazy" => let r := parseInts b; showIntss ((Ls.cartesian l r 0 0).map (fun p => [p.1, p.2]))
     | "zip" => showIntss ((Ls.zipLongest l (parseInts b)).map (fun p => [p.1, p.2]))
     | "transpose" => showIntss (Ls.transposeR ((a.splitOn ";").map parseInts))
     | "max" => (match Ls.vyMax (.node (l.map Ls.T.leaf)) with | some m => toString m | none => "[]")
     | "min" => (match Ls.vyMin (.node (l.map Ls.T.leaf)) with | some m => toString m | none => "[]")
     | "gradeup" => showInts ((Ls.gradeUp l).map (fun (i : Nat) => (i : Int)))
     | "gradedown" => showInts ((Ls.gradeDown l).map (fun (i : Nat) => (i : Int)))
     | "sublists" => showIntss (Ls.contiguous l)
     | "windows" => showIntss (Ls.windows l (b.toInt?.getD 0))
     | "rle" => "[" ++ ",".intercalate ((Ls.rle l).map (fun p => s!"[{p.1},{p.2}]")) ++ "]"
     | "rlerld" => showInts (Ls.rld (Ls.rle l))
     | _ => "BADFN")
  | _ => "BADARG"

/-- nested integer lists in the syntax `[1,[2,3],4]` / bare integers -/
partial def parseV (cs : List Char) : Option (Vec.V × List Char) :=
  match cs with
  | '[' :: rest =>
    let rec items (cs : List Char) (acc : List Vec.V) : Option (List Vec.V × List Char) :=
      match cs with
      | ']' :: r => some (acc.reverse, r)
      | ',' :: r => items r acc
      | _ => match parseV cs with
        | some (v, r) => items r (v :: acc)
        | none => none
    (items rest []).map (fun (xs, r) => (Vec.V.l xs, r))
  | _ =>
    let numS := cs.takeWhile (fun c => c.isDigit || c == '-')
    if numS.isEmpty then none else (String.ofList numS).toInt?.map (fun i => (Vec.V.s i, cs.drop numS.length))

partial def showV : Vec.V → String
  | .s a => toString a
  | .l xs => "[" ++ ",".intercalate (xs.map showV) ++ "]"

def vecCmd (arg : String) : String :=
  match arg.splitOn "|" with
  | [a, b] =>
    (match parseV a.toList, parseV b.toList with
     | some (x, _), some (y, _) => showV (Vec.d2 64 (fun p q => p * 1000 + q) x y)
     | _, _ => "BADARG")
  | [a] =>
    (match parseV a.toList with
     | some (x, _) => showV (Vec.d1 64 (fun p => p * 7 + 1) x)
     | none => "BADARG")
  | _ => "BADARG"

def streamOut {σ : Type} (m : Str.M σ) (src : Nat → Int) (n : Nat) : String :=
  showIntss (Str.take m src n) ++ " " ++ toString (Str.pulls m src n)

/-- `stream <machine> <k> <n>` on the source 1, 2, 3, … -/
def streamCmd (arg : String) : String :=
  let src : Nat → Int := fun i => (i : Int) + 1
  match arg.splitOn " " with
  | [name, ks, ns] =>
    let k := ks.toNat!
    let n := ns.toNat!
    (match name with
     | "map" => streamOut (Str.mapT (· + 1)) src n
     | "double" => streamOut (Str.mapT (· * 2)) src n
     | "addk" => streamOut (Str.mapT (· + (k : Int))) src n
     | "kadd" => streamOut (Str.mapT (fun x => (k : Int) + x)) src n
     | "ksub" => streamOut (Str.mapT (fun x => (k : Int) - x)) src n
     | "kmul" => streamOut (Str.mapT (fun x => (k : Int) * x)) src n
     | "ltk" => streamOut (Str.mapT (fun x => if x < (k : Int) then 1 else 0)) src n
     | "klt" => streamOut (Str.mapT (fun x => if (k : Int) < x then 1 else 0)) src n
     | "neg" => streamOut (Str.mapT (fun x => -x)) src n
     | "cumsum" => streamOut Str.cumsumT src n
     | "deltas" => streamOut Str.deltasT src n
     | "windows" => streamOut (Str.windowsT (k - 1)) src n
     | "chunks" => streamOut (Str.chunksT k) src n
     | "enumerate" => streamOut Str.enumerateT src n
     | "prepend" => streamOut (Str.prependT 0) src n
     | "slicefrom" => streamOut (Str.sliceFromT k) src n
     | "prefixes" => streamOut Str.prefixesT src n
     | "everyother" => streamOut Str.everyOtherT src n
     | "triple" => streamOut (Str.mapT (fun x => x + x * 2)) src n
     | "prependlist" => streamOut (Str.prependListT (List.replicate k 0)) src n
     | "addlist" => streamOut (Str.addListT ((List.range k).map (fun (i : Nat) => (i : Int) + 1))) src n
     | "zipinc" => streamOut (Str.zipMapT (· + 1)) src n
     | "interleavedbl" => streamOut (Str.interleaveMapT (· * 2)) src n
     | "chunksinc" => streamOut (Str.chunksMapT k (fun x => 1 + x)) src n
     | "flattenchunks" => streamOut Str.flattenChunks2T src n
     | "uniq" => streamOut (Str.uniqT k) src n
     | "group" => streamOut (Str.groupT k) src n
     | "filtermod" => streamOut (Str.filterT (fun x => x % (k : Int) == 0) k) src n
     | _ => "BADMACHINE")
  | _ => "BADARG"

/-! ### C01: values `[1,[2,3],4]`, the reference semantics, the element library -/
partial def parseVal (cs : List Char) : Option (Sem.Val × List Char) :=
  match cs with
  | '[' :: rest =>
    let rec items (cs : List Char) (acc : List Sem.Val) : Option (List Sem.Val × List Char) :=
      match cs with
      | ']' :: r => some (acc.reverse, r)
      | ',' :: r => items r acc
      | _ => match parseVal cs with
        | some (v, r) => items r (v :: acc)
        | none => none
    (items rest []).map (fun (xs, r) => (Sem.Val.list xs, r))
  | _ =>
    let numS := cs.takeWhile (fun c => c.isDigit || c == '-')
    if numS.isEmpty then none else (String.ofList numS).toInt?.map (fun i => (Sem.Val.int i, cs.drop numS.length))

partial def showVal' : Sem.Val → String
  | .int a => toString a
  | .list xs => "[" ++ ",".intercalate (xs.map showVal') ++ "]"
  | .fn _ => "<fn>"
  | .none => "None"

def parseValList (s : String) : List Sem.Val :=
  match parseVal s.toList with
  | some (.list xs, _) => xs
  | _ => []

def showSErr : Sem.SErr → String
  | .fuel => "ERR fuel"
  | .unmodelled w => "ERR unmodelled " ++ w
  | .raised c => "ERR raised " ++ c
  | .stuck w => "ERR stuck " ++ w

def escNl (s : String) : String := (s.replace "\\" "\\\\").replace "\n" "\\n"

/-- `ref <flags>|<inputs>|<program code points>` -/
def refCmd (arg : String) : String :=
  match arg.splitOn "|" with
  | [flags, ins, prog] =>
    (match parseTop (tokenise (parseCps prog)) with
     | .error e => s!"ERR parse {repr e}"
     | .ok tree =>
       match Sem.refProgram (Sem.cfgOfFlags flags Gen.elements Gen.modifiers) 200 flags (parseValList ins) tree with
       | .ok (st, out) => showVal' (.list st) ++ " " ++ escNl out
       | .error e => showSErr e)
  | _ => "BADARG"

/-- `py <flags>|<inputs>|<program code points>` : the Python semantics of the model's transpiled tree -/
def pyCmd (arg : String) : String :=
  match arg.splitOn "|" with
  | [flags, ins, prog] =>
    (match parseTop (tokenise (parseCps prog)) with
     | .error e => s!"ERR parse {repr e}"
     | .ok tree =>
       match transpileAst (genEnv true) tree with
       | .error e => showTErr e
       | .ok code =>
         match Sem.pyProgram (Sem.cfgOfFlags flags Gen.elements Gen.modifiers) 200 flags (parseValList ins) code with
         | .ok (st, out) => showVal' (.list st) ++ " " ++ escNl out
         | .error e => showSErr e)
  | _ => "BADARG"

/-- `elem <python function name>|<argument list>` -/
def elemCmd (arg : String) : String :=
  match arg.splitOn "|" with
  | [name, args] =>
    (match Sem.elemFn name (parseValList args) with
     | .ok v => showVal' v
     | .error e => showSErr e)
  | _ => "BADARG"

def answer (cmd arg : String) : String :=
  match cmd with
  | "tok" => showToks (tokenise (parseCps arg))
  | "tokV" => showToks (tokeniseV (parseCps arg))
  | "parse" =>
    let toks := if arg.isEmpty then [] else (arg.splitOn " ").map parseTokStr
    (match parseTop toks with
     | .ok r => showL r
     | .error e => s!"ERR {repr e}")
  | "lexparse" =>
    (match parseTop (tokenise (parseCps arg)) with
     | .ok r => showL r
     | .error e => s!"ERR {repr e}")
  | "v2u" => showOptCps (vyxalToUtf8 Gen.codepage (parseCps arg))
  | "u2v" => showOptCps (utf8ToVyxal Gen.codepage (parseCps arg))
  | "numparts" => showOptCps (some (numberParts (parseCps arg)))
  | "userat" => if numberUsesRational (parseCps arg) then "T" else "F"
  | "decval" => (match decimalValue (parseCps arg) with
      | some (n, k) => s!"{n} {k}"
      | none => "ERR")
  | "quotify" => showOptCps (some (quotify (parseCps arg)))
  | "escstr" => showOptCps (some (escapeString (parseCps arg)))
  | "pybody" => showOptCps (pyStringBody (parseCps arg))
  | "placed" => placedCmd (parseCps arg)
  | "atok" => atokCmd (parseCps arg)
  | "pophelper" => popHelperCmd arg
  | "dictfacts" => s!"{Gen.dictionaryContents.length} {Gen.compression.length} {dictMaxLen}"
  | "dictcomp" => showOptCps (some (optimalCompress Gen.compression Gen.dictionaryContents dictMaxLen (parseCps arg)))
  | "transpile" => transpileCmd false (parseCps arg)
  | "transpileD" => transpileCmd true (parseCps arg)
  | "pydecode" => (match pyDecode (parseCps arg) with
      | .ok r => showOptCps (some r)
      | .error .syntax => "ERR syntax"
      | .error .unmodelled => "ERR unmodelled")
  | "todigits" => (match parseCps arg with
      | [b, n] => showOptCps (some (toDigits b n))
      | _ => "BADARG")
  | "fromdigits" => (match parseCps arg with
      | b :: ds => toString (fromDigits b ds)
      | _ => "BADARG")
  | "tobaseloop" => (match parseCps arg with
      | [b, e, n] => showOptCps (some (toBaseLoop b e n))
      | _ => "BADARG")
  | "cnum" => (match parseCps arg with
      | [e, n] => showOptCps (some (compressNum Gen.numCompress e n))
      | _ => "BADARG")
  | "cstr" => (match parseCps arg with
      | [e, n] => showOptCps (some (compressStr Gen.strCompress e n))
      | _ => "BADARG")
  | "ucnum" => (match uncompressNum Gen.numCompress (parseCps arg) with
      | some n => toString n
      | none => "ERR")
  | "ucstr" => showOptCps (uncompressStr Gen.strCompress Gen.base27 (parseCps arg))
  | "frombase27" => (match fromAlphabet Gen.base27 (parseCps arg) with
      | some n => toString n
      | none => "ERR")
  | "stream" => streamCmd arg
  | "vec" => vecCmd arg
  | "nt" => ntCmd arg
  | "ls" => lsCmd arg
  | "arith" => arithCmd arg
  | "ll" => llCmd arg
  | "inp" => inpCmd arg
  | "ref" => refCmd arg
  | "py" => pyCmd arg
  | "elem" => elemCmd arg
  | _ => "BADCMD"

partial def loop (h : IO.FS.Stream) (out : IO.FS.Stream) : IO Unit := do
  let line ← h.getLine
  if line.isEmpty then return ()
  let l := if line.back == (Char.ofNat 10) then (line.dropEnd 1).toString else line
  let (cmd, arg) := match l.splitOn "\t" with
    | [c] => (c, "")
    | c :: a :: _ => (c, a)
    | [] => ("", "")
  out.putStrLn (answer cmd arg)
  loop h out

def main : IO Unit := do
  let out ← IO.getStdout
  loop (← IO.getStdin) out
