"""Source inventories for the translator (C12: functions that touch the bookkeeping lists of ctx)."""
import ast
import os
import pyast2lean as P

BOOK = ("context_values", "inputs", "stacks", "function_stack")


def touches_book(fn):
    for n in ast.walk(fn):
        if isinstance(n, ast.Attribute) and n.attr in BOOK:
            return True
    return False


def ctx_sites(repo, problems):
    rows, jrows = [], []
    for mod in sorted(os.listdir(os.path.join(repo, "vyxal"))):
        if not mod.endswith(".py") or mod in ("dictionary.py", "context.py"):
            continue
        text = open(os.path.join(repo, "vyxal", mod), encoding="utf-8").read()
        tree = ast.parse(text)

        def visit(node, prefix):
            for ch in ast.iter_child_nodes(node):
                if isinstance(ch, (ast.FunctionDef, ast.AsyncFunctionDef)):
                    q = prefix + ch.name
                    # only the function's own statements: nested defs are listed separately and erased to `defn`
                    if touches_book(ch):
                        nonctx = [n for n in ast.walk(ch) if isinstance(n, ast.Attribute) and n.attr in BOOK
                                  and not (isinstance(n.value, ast.Name) and n.value.id == "ctx")]
                        if nonctx:
                            problems.append(f"ctx-sites: {mod}:{q} reaches a bookkeeping list through something other than `ctx`")
                        rows.append(f"  ⟨{P.lstr(mod[:-3] + '.' + q)}, {P.SL(ch.body)}⟩")
                        jrows.append({"name": mod[:-3] + "." + q, "line": ch.lineno})
                    visit(ch, q + ".")
                elif isinstance(ch, ast.ClassDef):
                    visit(ch, prefix + ch.name + ".")
                else:
                    visit(ch, prefix)

        visit(tree, "")
    return rows, jrows


MUT = {"append", "extend", "insert", "pop", "remove", "sort", "reverse", "clear", "update", "add", "discard", "setdefault", "popitem"}


def _base(e):
    while isinstance(e, (ast.Subscript, ast.Attribute)):
        e = e.value
    return e.id if isinstance(e, ast.Name) else None


def mutation_sites(repo, problems):
    """every syntactic in-place mutation whose base name is a *parameter* of the enclosing function
    (x[i] = .., x[i] op= .., x op= .., x.append/.extend/.insert/.pop/.remove/.sort/.reverse/.clear(..), del x[..])"""
    rows = []
    for mod in ("elements", "helpers", "LazyList", "main"):
        tree = ast.parse(open(os.path.join(repo, "vyxal", mod + ".py"), encoding="utf-8").read())
        for fn in ast.walk(tree):
            if not isinstance(fn, ast.FunctionDef):
                continue
            params = {a.arg for a in fn.args.args + fn.args.kwonlyargs}
            if fn.args.vararg:
                params.add(fn.args.vararg.arg)
            # locals bound to the very object a parameter names: `x = p`, `x = iterable(p, ..)` (identity on lists)
            aliases = {p: p for p in params}
            changed = True
            while changed:
                changed = False
                for m in ast.walk(fn):
                    if isinstance(m, ast.Assign) and len(m.targets) == 1 and isinstance(m.targets[0], ast.Name):
                        v = m.value
                        if isinstance(v, ast.Call) and isinstance(v.func, ast.Name) and v.func.id == "iterable" and v.args:
                            v = v.args[0]
                        if isinstance(v, ast.Name) and v.id in aliases and m.targets[0].id not in aliases:
                            aliases[m.targets[0].id] = aliases[v.id]
                            changed = True
            for n in ast.walk(fn):
                site = None
                if isinstance(n, ast.Assign):
                    for t in n.targets:
                        if isinstance(t, ast.Subscript):
                            site = ("setitem", _base(t))
                elif isinstance(n, ast.AugAssign):
                    if isinstance(n.target, ast.Subscript):
                        site = ("aug-item", _base(n.target))
                    elif isinstance(n.target, ast.Attribute):
                        site = ("aug-attr", _base(n.target))
                    elif isinstance(n.target, ast.Name):
                        site = ("aug-name", n.target.id)
                elif isinstance(n, ast.Call) and isinstance(n.func, ast.Attribute) and n.func.attr in MUT:
                    site = (n.func.attr, _base(n.func.value))
                elif isinstance(n, ast.Delete):
                    for t in n.targets:
                        site = ("del", _base(t))
                if site and site[1] in aliases and site[1] not in params:
                    # a local that is just another name for a parameter (x = p, x = iterable(p), x = p or ..): same object
                    rows.append((mod + "." + fn.name, site[0], site[1], "alias of " + aliases[site[1]]))
                if site and site[1] in params:
                    # the last rebinding of that parameter before the site (a fresh copy makes the write harmless)
                    rebind, best = "", -1
                    for m in ast.walk(fn):
                        if isinstance(m, ast.Assign) and best < m.lineno < n.lineno and any(isinstance(t, ast.Name) and t.id == site[1] for t in m.targets):
                            rebind, best = ast.unparse(m.value), m.lineno
                    rows.append((mod + "." + fn.name, site[0], site[1], rebind))
    return sorted(rows)


def vectorising(repo, gj, problems):
    """for every element documented `vectorise: true`: does the function it calls fall through to
    `vectorise(<itself>, …)` (the dispatch skeleton)?"""
    tree = ast.parse(open(os.path.join(repo, "vyxal", "elements.py"), encoding="utf-8").read())
    fns = {n.name: n for n in tree.body if isinstance(n, ast.FunctionDef)}

    def selfvec(name):
        fn = fns.get(name)
        if fn is None:
            return False
        for n in ast.walk(fn):
            if (isinstance(n, ast.Call) and isinstance(n.func, ast.Name) and n.func.id == "vectorise" and n.args
                    and isinstance(n.args[0], ast.Name) and n.args[0].id == name):
                return True
        return False

    doc = {}
    for d in gj["yaml"]:
        if not d["modifier"]:
            doc.setdefault(d["key"], d["vectorise"])
    rows = []
    for e in gj["elements"]:
        if doc.get(e["key"]) is not True:
            continue
        if e["kind"] == "fn":
            ok = selfvec(e["helper"])
        else:
            try:
                called = [n.func.id for n in ast.walk(ast.parse(e["code"])) if isinstance(n, ast.Call) and isinstance(n.func, ast.Name)]
            except SyntaxError:
                called = []
            ok = any(selfvec(c) for c in called if c in fns)
        rows.append((e["key"], ok))
    return rows


SINK_NAMES = {"eval", "exec", "compile", "print", "input", "open", "__import__", "exit", "quit"}
SYMPY_EVAL = {"nsimplify", "sympify", "parse_expr", "S"}
SINK_ATTRS = {"urlopen", "literal_eval", "system", "popen", "Popen", "run", "call", "check_output", "exit"}


def _sinks_in(tree, where, rows):
    def guard_of(stack):
        g = []
        for node, branch in stack:
            t = ast.unparse(node.test)
            if "online" in t:
                g.append(("not " if branch == "else" else "") + t)
        return " & ".join(g)

    def visit(node, fn, stack):
        for field, value in ast.iter_fields(node):
            kids = value if isinstance(value, list) else [value]
            for ch in kids:
                if not isinstance(ch, ast.AST):
                    continue
                nfn = ch.name if isinstance(ch, ast.FunctionDef) else fn
                nstack = stack
                if isinstance(node, (ast.If, ast.IfExp)):
                    if field == "body":
                        nstack = stack + [(node, "then")]
                    elif field == "orelse":
                        nstack = stack + [(node, "else")]
                if isinstance(ch, ast.Call):
                    f = ch.func
                    name = None
                    if isinstance(f, ast.Name) and f.id in SINK_NAMES:
                        name = f.id
                    elif isinstance(f, ast.Attribute) and f.attr in SINK_ATTRS:
                        base = ast.unparse(f.value)
                        if base.split(".")[0] in ("os", "subprocess", "sys", "urllib", "ast", "request"):
                            name = base + "." + f.attr
                    # sympy entry points that *evaluate* a string argument (sympify -> parse_expr -> eval): listed unless the
                    # first argument is syntactically a number (a numeric constant, arithmetic, or a call of a numeric function)
                    if name is None and ch.args and (
                            (isinstance(f, ast.Attribute) and f.attr in SYMPY_EVAL and ast.unparse(f.value) == "sympy")
                            or (isinstance(f, ast.Name) and f.id in SYMPY_EVAL)):
                        a0 = ch.args[0]
                        numeric = (isinstance(a0, (ast.BinOp, ast.UnaryOp))
                                   or (isinstance(a0, ast.Constant) and isinstance(a0.value, (int, float)))
                                   or (isinstance(a0, ast.Call) and (
                                       (isinstance(a0.func, ast.Attribute) and ast.unparse(a0.func.value) in ("sympy", "math", "mpmath"))
                                       or (isinstance(a0.func, ast.Name) and a0.func.id in ("int", "float", "len", "abs", "round")))))
                        if not numeric:
                            name = "sympy-eval:" + ast.unparse(ch)[:60]
                    if name:
                        rows.append((where + (("." + nfn) if nfn else ""), name, guard_of(nstack)))
                visit(ch, nfn, nstack)

    visit(tree, None, [])


def sinks(repo, gj, problems):
    """every syntactic call of eval / exec / compile / print / input / open / __import__ / exit / urlopen / literal_eval /
    os.* / subprocess.* in vyxal/*.py and in the element / modifier templates, with the `ctx.online` tests that dominate it"""
    rows = []
    for mod in sorted(os.listdir(os.path.join(repo, "vyxal"))):
        if not mod.endswith(".py") or mod == "dictionary.py":
            continue
        tree = ast.parse(open(os.path.join(repo, "vyxal", mod), encoding="utf-8").read())
        _sinks_in(tree, mod[:-3], rows)
    for e in gj["elements"] + gj["modifiers"]:
        try:
            t = ast.parse(e["code"])
        except SyntaxError:
            continue
        _sinks_in(t, "template:" + e["key"], rows)
    return rows


def tries(repo):
    """every `try` statement of vyxal/*.py: (function, dominating `ctx.online` tests, handler types, first calls of its body) —
    the error-containment sites of online mode are among them"""
    rows = []
    for mod in sorted(os.listdir(os.path.join(repo, "vyxal"))):
        if not mod.endswith(".py") or mod == "dictionary.py":
            continue
        tree = ast.parse(open(os.path.join(repo, "vyxal", mod), encoding="utf-8").read())

        def visit(node, fn, stack):
            for field, value in ast.iter_fields(node):
                kids = value if isinstance(value, list) else [value]
                for ch in kids:
                    if not isinstance(ch, ast.AST):
                        continue
                    nfn = ch.name if isinstance(ch, ast.FunctionDef) else fn
                    nstack = stack
                    if isinstance(node, (ast.If, ast.IfExp)):
                        if field == "body":
                            nstack = stack + [(node, "then")]
                        elif field == "orelse":
                            nstack = stack + [(node, "else")]
                    if isinstance(ch, ast.Try):
                        g = " & ".join((("not " if b == "else" else "") + ast.unparse(n.test)) for n, b in nstack
                                       if "online" in ast.unparse(n.test))
                        types = "|".join("bare" if h.type is None else ast.unparse(h.type) for h in ch.handlers)
                        calls = [ast.unparse(c.func) for c in ast.walk(ast.Module(body=ch.body, type_ignores=[]))
                                 if isinstance(c, ast.Call)][:4]
                        rows.append((mod[:-3] + "." + str(nfn), g, types, ",".join(calls)))
                    visit(ch, nfn, nstack)

        visit(tree, None, [])
    return rows


def generate(repo, files, gj, problems):
    tr = tries(repo)
    files["Tries.lean"] = "\n".join([
        "-- GENERATED by tools/extract.py from the repository's current source. Do not edit.",
        "namespace Gen", "",
        "/-- every `try` statement of vyxal/*.py: (function, dominating `ctx.online` tests, handler types, first calls of its body) -/",
        "def tries : List (String × String × String × String) := [",
        ",\n".join("  (%s, %s, %s, %s)" % (P.lstr(a), P.lstr(b), P.lstr(c), P.lstr(d)) for a, b, c, d in tr) + "]", "", "end Gen", ""])
    gj["tries"] = [list(x) for x in tr]
    sk = sinks(repo, gj, problems)
    files["Sinks.lean"] = "\n".join([
        "-- GENERATED by tools/extract.py from the repository's current source. Do not edit.",
        "namespace Gen", "",
        "/-- every syntactic sink call (eval, exec, compile, print, input, open, __import__, exit, urlopen, literal_eval, os.*,",
        "    subprocess.*) in vyxal/*.py and in the element templates: (where, sink, dominating `ctx.online` tests) in source order -/",
        "def sinks : List (String × String × String) := [",
        ",\n".join("  (%s, %s, %s)" % (P.lstr(a), P.lstr(b), P.lstr(c)) for a, b, c in sk) + "]", "", "end Gen", ""])
    gj["sinks"] = [list(x) for x in sk]
    vs = vectorising(repo, gj, problems)
    files["Vectorising.lean"] = "\n".join([
        "-- GENERATED by tools/extract.py from the repository's current source. Do not edit.",
        "namespace Gen", "",
        "/-- elements documented `vectorise: true` (documents/knowledge/elements.yaml) and whether the function the element calls",
        "    falls through to `vectorise(<itself>, …)` — the dispatch skeleton of Model/Vectorise.lean -/",
        "def documentedVectorising : List (List Nat × Bool) := [",
        ",\n".join("  ([%s], %s)" % (", ".join(str(ord(c)) for c in k), "true" if ok else "false") for k, ok in vs) + "]", "", "end Gen", ""])
    gj["vectorising"] = [[k, ok] for k, ok in vs]
    ms = mutation_sites(repo, problems)
    files["Mutation.lean"] = "\n".join([
        "-- GENERATED by tools/extract.py from the repository's current source. Do not edit.",
        "namespace Gen", "",
        "/-- every syntactic in-place mutation in vyxal/{elements,helpers,LazyList,main}.py whose base name is a parameter of the",
        "    enclosing function: (function, kind, parameter, last rebinding of the parameter before the site), sorted, duplicates kept -/",
        "def mutationSites : List (String × String × String × String) := [",
        ",\n".join("  (%s, %s, %s, %s)" % (P.lstr(a), P.lstr(b), P.lstr(c), P.lstr(d)) for a, b, c, d in ms) + "]", "", "end Gen", ""])
    gj["mutation_sites"] = [list(x) for x in ms]
    rows, jrows = ctx_sites(repo, problems)
    files["CtxSites.lean"] = "\n".join([
        "-- GENERATED by tools/extract.py from the repository's current source. Do not edit.",
        "import VyxalModel.Model.GenTypes", "open PyAst", "namespace Gen", "",
        "/-- every function of vyxal/*.py (outside the templates of transpile.py and the Context class) whose body",
        "    mentions ctx.context_values / inputs / stacks / function_stack: qualified name and body -/",
        "def ctxSites : List (String × List PyStmt) := [", ",\n".join(rows) + "]", "", "end Gen", ""])
    gj["ctx_sites"] = jrows
