"""ast -> Lean `PyAst` term serialiser, and ast -> canonical S-expression dump.

Two outputs for the same tree:
  * `S(stmt)` / `E(expr)`   : Lean term syntax for `VyxalModel/Model/PyAst.lean` (used by the translator)
  * `dumpS(stmt)` / `dumpE` : canonical one-line S-expression; the Lean driver prints the same format
                              (`Model/PyDump.lean`), so real and model ASTs can be diffed as text.
Unknown nodes become `.other "<NodeName>"` (never silently dropped).
"""
import ast


def lstr(s):
    out = ['"']
    for c in s:
        o = ord(c)
        if c == '"':
            out.append('\\"')
        elif c == "\\":
            out.append("\\\\")
        elif c == "\n":
            out.append("\\n")
        elif c == "\t":
            out.append("\\t")
        elif c == "\r":
            out.append("\\r")
        elif 32 <= o < 127:
            out.append(c)
        elif o < 32 or o == 127:
            out.append("\\x%02x" % o)
        elif 0xD800 <= o <= 0xDFFF:
            out.append("\\ufffd")
        elif o < 0xA0:
            out.append("\\u%04x" % o)
        else:
            out.append(c)
    out.append('"')
    return "".join(out)


def L(xs):
    return "[" + ", ".join(xs) + "]"


OPS = {ast.Add: "add", ast.Sub: "sub", ast.Mult: "mul", ast.Div: "div", ast.Pow: "pow", ast.Mod: "mod",
       ast.FloorDiv: "fdiv", ast.BitAnd: "band", ast.BitOr: "bor", ast.BitXor: "bxor", ast.LShift: "shl",
       ast.RShift: "shr", ast.MatMult: "matmul"}
CMP = {ast.Eq: "eq", ast.NotEq: "ne", ast.Lt: "lt", ast.LtE: "le", ast.Gt: "gt", ast.GtE: "ge", ast.Is: "is_",
       ast.IsNot: "isNot", ast.In: "in_", ast.NotIn: "notIn"}


def simple_params(a):
    """positional params with trailing defaults only, else None"""
    if a.vararg or a.kwarg or a.kwonlyargs or a.posonlyargs:
        return None
    names = [x.arg for x in a.args]
    defaults = [None] * (len(names) - len(a.defaults)) + list(a.defaults)
    return list(zip(names, defaults))


def E(e):
    t = type(e)
    if t is ast.Name:
        return f"(.name {lstr(e.id)})"
    if t is ast.Constant:
        v = e.value
        if isinstance(v, bool):
            return f'(.cbool {"true" if v else "false"})'
        if isinstance(v, int):
            return f"(.cint ({v}))"
        if isinstance(v, str):
            return f"(.cstr {lstr(v)})"
        if v is None:
            return ".cnone"
        if isinstance(v, float):
            return f"(.cfloat {lstr(repr(v))})"
        return f"(.other {lstr('Constant:' + type(v).__name__)} [])"
    if t is ast.Call:
        kws = ["(%s, %s)" % (lstr(k.arg or "**"), E(k.value)) for k in e.keywords]
        return f"(.call {E(e.func)} {L([E(a) for a in e.args])} {L(kws)})"
    if t is ast.Attribute:
        return f"(.attr {E(e.value)} {lstr(e.attr)})"
    if t is ast.Subscript:
        return f"(.subscript {E(e.value)} {E(e.slice)})"
    if t is ast.Slice:
        o = lambda x: f"(some {E(x)})" if x is not None else "none"
        return f"(.slice {o(e.lower)} {o(e.upper)} {o(e.step)})"
    if t is ast.BinOp:
        return f"(.binop .{OPS[type(e.op)]} {E(e.left)} {E(e.right)})"
    if t is ast.BoolOp:
        return f'(.boolop {"true" if isinstance(e.op, ast.And) else "false"} {L([E(v) for v in e.values])})'
    if t is ast.UnaryOp:
        return f"(.unary {lstr(type(e.op).__name__)} {E(e.operand)})"
    if t is ast.Compare:
        rest = ["(.%s, %s)" % (CMP[type(o)], E(c)) for o, c in zip(e.ops, e.comparators)]
        return f"(.compare {E(e.left)} {L(rest)})"
    if t is ast.List:
        return f"(.list {L([E(x) for x in e.elts])})"
    if t is ast.Tuple:
        return f"(.tuple {L([E(x) for x in e.elts])})"
    if t is ast.Starred:
        return f"(.starred {E(e.value)})"
    if t is ast.IfExp:
        return f"(.ifExp {E(e.test)} {E(e.body)} {E(e.orelse)})"
    if t is ast.Lambda:
        ps = simple_params(e.args)
        if ps is not None and all(d is None for _, d in ps):
            return f"(.lambda {L([lstr(n) for n, _ in ps])} {E(e.body)})"
    kids = [c for c in ast.iter_child_nodes(e) if isinstance(c, ast.expr)]
    for c in ast.iter_child_nodes(e):   # comprehensions, keywords … : one level of non-expression wrappers
        if not isinstance(c, (ast.expr, ast.expr_context, ast.operator, ast.unaryop, ast.cmpop, ast.boolop)):
            kids += [g for g in ast.walk(c) if isinstance(g, ast.expr) and g is not c][:0] + [g for g in ast.iter_child_nodes(c) if isinstance(g, ast.expr)]
    return f"(.other {lstr(t.__name__)} {L([E(k) for k in kids])})"


def S(s):
    t = type(s)
    if t is ast.Assign:
        return f"(.assign {L([E(x) for x in s.targets])} {E(s.value)})"
    if t is ast.AugAssign:
        return f"(.augAssign {E(s.target)} .{OPS[type(s.op)]} {E(s.value)})"
    if t is ast.Expr:
        return f"(.expr {E(s.value)})"
    if t is ast.If:
        return f"(.ifS {E(s.test)} {SL(s.body)} {SL(s.orelse)})"
    if t is ast.While and not s.orelse:
        return f"(.whileS {E(s.test)} {SL(s.body)})"
    if t is ast.For and not s.orelse:
        return f"(.forS {E(s.target)} {E(s.iter)} {SL(s.body)})"
    if t is ast.FunctionDef and not s.decorator_list:
        ps = simple_params(s.args)
        if ps is not None:
            pl = ["(%s, %s)" % (lstr(n), "none" if d is None else f"some {E(d)}") for n, d in ps]
            return f"(.defS {lstr(s.name)} {L(pl)} {SL(s.body)})"
    if t is ast.Return:
        return "(.ret none)" if s.value is None else f"(.ret (some {E(s.value)}))"
    if t is ast.Break:
        return ".brk"
    if t is ast.Continue:
        return ".cont"
    if t is ast.Pass:
        return ".pass"
    if t is ast.Try:
        hs = [SL(h.body) for h in s.handlers]
        return f"(.tryS {SL(s.body)} {L(hs)} {SL(s.orelse)} {SL(s.finalbody)})"
    es = [c for c in ast.iter_child_nodes(s) if isinstance(c, ast.expr)]
    ss = [c for c in ast.iter_child_nodes(s) if isinstance(c, ast.stmt)]
    for c in ast.iter_child_nodes(s):   # handlers, withitems, match cases …
        if not isinstance(c, (ast.expr, ast.stmt)):
            es += [g for g in ast.iter_child_nodes(c) if isinstance(g, ast.expr)]
            ss += [g for g in ast.iter_child_nodes(c) if isinstance(g, ast.stmt)]
    return f"(.other {lstr(t.__name__)} {L([E(k) for k in es])} {SL(ss)})"


def SL(body):
    return L([S(x) for x in body])


# ---------------------------------------------------------------- canonical dump

def cps(s):
    return ",".join(str(ord(c)) if not (0xD800 <= ord(c) <= 0xDFFF) else "65533" for c in s)


def dl(xs):
    return "[" + " ".join(xs) + "]"


def dumpE(e):
    t = type(e)
    if t is ast.Name:
        return f"(n {e.id})"
    if t is ast.Constant:
        v = e.value
        if isinstance(v, bool):
            return "(b T)" if v else "(b F)"
        if isinstance(v, int):
            return f"(i {v})"
        if isinstance(v, str):
            return f"(s {cps(v)})"
        if v is None:
            return "(none)"
        if isinstance(v, float):
            return f"(f {v!r})"
        return f"(other Constant:{type(v).__name__} [])"
    if t is ast.Call:
        kws = ["(kw %s %s)" % (k.arg or "**", dumpE(k.value)) for k in e.keywords]
        return f"(call {dumpE(e.func)} {dl([dumpE(a) for a in e.args])} {dl(kws)})"
    if t is ast.Attribute:
        return f"(attr {dumpE(e.value)} {e.attr})"
    if t is ast.Subscript:
        return f"(sub {dumpE(e.value)} {dumpE(e.slice)})"
    if t is ast.Slice:
        o = lambda x: dumpE(x) if x is not None else "_"
        return f"(slice {o(e.lower)} {o(e.upper)} {o(e.step)})"
    if t is ast.BinOp:
        return f"(bin {OPS[type(e.op)]} {dumpE(e.left)} {dumpE(e.right)})"
    if t is ast.BoolOp:
        return f'({"and" if isinstance(e.op, ast.And) else "or"} {dl([dumpE(v) for v in e.values])})'
    if t is ast.UnaryOp:
        return f"(un {type(e.op).__name__} {dumpE(e.operand)})"
    if t is ast.Compare:
        rest = ["(%s %s)" % (CMP[type(o)], dumpE(c)) for o, c in zip(e.ops, e.comparators)]
        return f"(cmp {dumpE(e.left)} {dl(rest)})"
    if t is ast.List:
        return f"(list {dl([dumpE(x) for x in e.elts])})"
    if t is ast.Tuple:
        return f"(tuple {dl([dumpE(x) for x in e.elts])})"
    if t is ast.Starred:
        return f"(star {dumpE(e.value)})"
    if t is ast.IfExp:
        return f"(ifexp {dumpE(e.test)} {dumpE(e.body)} {dumpE(e.orelse)})"
    if t is ast.Lambda:
        ps = simple_params(e.args)
        if ps is not None and all(d is None for _, d in ps):
            return f"(lambda {dl([n for n, _ in ps])} {dumpE(e.body)})"
    kids = [c for c in ast.iter_child_nodes(e) if isinstance(c, ast.expr)]
    for c in ast.iter_child_nodes(e):
        if not isinstance(c, (ast.expr, ast.expr_context, ast.operator, ast.unaryop, ast.cmpop, ast.boolop)):
            kids += [g for g in ast.iter_child_nodes(c) if isinstance(g, ast.expr)]
    return f"(other {t.__name__} {dl([dumpE(k) for k in kids])})"


def dumpS(s):
    t = type(s)
    if t is ast.Assign:
        return f"(assign {dl([dumpE(x) for x in s.targets])} {dumpE(s.value)})"
    if t is ast.AugAssign:
        return f"(aug {dumpE(s.target)} {OPS[type(s.op)]} {dumpE(s.value)})"
    if t is ast.Expr:
        return f"(expr {dumpE(s.value)})"
    if t is ast.If:
        return f"(if {dumpE(s.test)} {dumpSL(s.body)} {dumpSL(s.orelse)})"
    if t is ast.While and not s.orelse:
        return f"(while {dumpE(s.test)} {dumpSL(s.body)})"
    if t is ast.For and not s.orelse:
        return f"(for {dumpE(s.target)} {dumpE(s.iter)} {dumpSL(s.body)})"
    if t is ast.FunctionDef and not s.decorator_list:
        ps = simple_params(s.args)
        if ps is not None:
            pl = ["(%s %s)" % (n, "_" if d is None else dumpE(d)) for n, d in ps]
            return f"(def {s.name} {dl(pl)} {dumpSL(s.body)})"
    if t is ast.Return:
        return "(ret _)" if s.value is None else f"(ret {dumpE(s.value)})"
    if t is ast.Break:
        return "(break)"
    if t is ast.Continue:
        return "(continue)"
    if t is ast.Pass:
        return "(pass)"
    if t is ast.Try:
        hs = [dumpSL(h.body) for h in s.handlers]
        return f"(try {dumpSL(s.body)} {dl(hs)} {dumpSL(s.orelse)} {dumpSL(s.finalbody)})"
    es = [c for c in ast.iter_child_nodes(s) if isinstance(c, ast.expr)]
    ss = [c for c in ast.iter_child_nodes(s) if isinstance(c, ast.stmt)]
    for c in ast.iter_child_nodes(s):
        if not isinstance(c, (ast.expr, ast.stmt)):
            es += [g for g in ast.iter_child_nodes(c) if isinstance(g, ast.expr)]
            ss += [g for g in ast.iter_child_nodes(c) if isinstance(g, ast.stmt)]
    return f"(other {t.__name__} {dl([dumpE(k) for k in es])} {dumpSL(ss)})"


def dumpSL(body):
    return dl([dumpS(x) for x in body])


def dump_source(src):
    return dumpSL(ast.parse(src).body)
