#!/usr/bin/env python3
"""Writes MANIFEST.json from the table below (kept in one place so that it is always valid)."""
import json, os
VERIF = os.path.dirname(os.path.dirname(os.path.abspath(__file__)))

COMMON_NOTE = ("Trusted: Lean 4.33 kernel (axioms ⊆ propext, Classical.choice, Quot.sound; audited by #print axioms each run; "
               "no sorry/native_decide), the translator tools/extract.py (Gen/*.lean regenerated from /repo on every run), "
               "the correspondence harness (real code vs compiled Lean driver on generated cases). ")

CHECKS = {
    "C20": dict(
        text="Machine-checked table theorems over the regenerated code page / element / modifier / structure / documentation "
             "tables (kernel evaluation, no axioms) plus inductive round-trip theorems for ALL byte strings and code-page texts; "
             "lexer and parser models used in the theorems are tied to the real tokenise/parse on every key; the domain of the "
             "property is finite and the direct oracles enumerate it completely.",
        note=COMMON_NOTE + "Known findings F17 (duplicate key ÞR) and F18 (dead entry x) are excluded by name in the partial theorems.",
        technique="Lean 4 proof: decide +kernel over translator-regenerated tables + induction for the round trips; exhaustive correspondence",
        ref="§5 C20"),
}

CHECKS["C03"] = dict(
    text="Lean theorems for all programs and all payloads: the lexer reads a rendered literal of each of the seven kinds back as one "
         "unit whatever its (valid) payload and continuation (lex_literal), parsing commutes with erasing literal payloads "
         "(parse_erase, by the parser's own recursion), hence literal_payload_irrelevant at source level. Tie: real tokenise/parse "
         "vs the Lean models on every generated program; direct shape oracle on the real parser over 42 contexts x 7 kinds x payloads "
         "over the 28 syntax-significant characters (exhaustive to length 2 in the thorough tier).",
    note=COMMON_NOTE + "The theorem excludes literals in the three headers the grammar reads as text (lambda arity, @ header, loop variable: hdrOK); "
         "model fuel = token count + 1 (a `fuel` error has never been observed in the correspondence).",
    technique="Lean 4 proof by induction over lexer steps and the parser's recursion; differential lexer/parser correspondence; shape oracle",
    ref="§5 C03")
CHECKS["C04"] = dict(
    text="Lean theorem parse_append_closers: appending any prefix of the pending closers to a token list never changes the parse "
         "(every structure, modifier and parent kind, any nesting), lexer lemmas for unterminated string / compressed literals at end "
         "of input, and the source-level truncation_invariant. Function definitions/references are inside the theorem under the recursive "
         "predicate atOK (an @ still in its header at the end of its token list has no opener of its own; @f[ vs @f[]; really do differ), "
         "evaluated by the model on every generated @ program and checked against the real parser. Tie: lexer/parser correspondence; direct oracle "
         "parse(closed) == parse(truncated) for every number of dropped closers on grammar-generated programs (thorough: all programs "
         "of <= 5 symbols over a 16-symbol alphabet, plus 300 000 sampled programs of 6..8 symbols).",
    note=COMMON_NOTE + "Hypothesis atOK excludes exactly the unclosed @ headers that contain an opener (outside the documented \\w+ names).",
    technique="Lean 4 proof (state-machine view of _get_branches + induction on the parser's recursion); differential correspondence; truncation oracle",
    ref="§5 C04")
CHECKS["C05"] = dict(
    text="Lean theorems for all digit strings: lex_integer, lex_leading_zero, lex_decimal, lex_second_point on the lexer model; "
         "number_parts_plain / uses_rational_iff on the model of the NUMBER template (the text handed to sympy is the literal itself and a "
         "literal with a point goes to the exact constructor); integer_value / decimal_value (a.b denotes (a*10^|b|+b)/10^|b|). Tie: lexer "
         "and template correspondence (exhaustive short strings), value stream: exec(transpile(lit)) compared by type and exact equality "
         "with fractions.Fraction and with the model, incl. an adversarial family aimed at mpmath.identify.",
    note=COMMON_NOTE + "T5: sympy's own string parsers are assumed exact and validated per literal, not proved. Known finding F25: integer literals "
         "go through sympy.nsimplify(<string>) whose text is pinned by the existing test; 258 of 0..20000 are mis-evaluated.",
    technique="Lean 4 proof by induction on digit strings; differential lexer/template/value correspondence against fractions.Fraction",
    ref="§5 C05")

CHECKS["C06"] = dict(
    text="Lean theorems for every string: quote_lex (the lexer reads quotify's text back as one STRING token carrying the escaped body), "
         "quote_eval_raw (escape for Python, decode: identity; dictionary compression off) and quote_eval_dict (identity for every "
         "printable-ASCII string with ANY dictionary, via uncompress_ascii_id on the modelled state machine of uncompress_dict and a "
         "kernel-checked table fact that no printable ASCII character is a compression character). Tie: real quotify / tokenise / emitted "
         "literal body / CPython decoding vs the models; direct round-trip oracle running the quoted text.",
    note=COMMON_NOTE + "T3: CPython's string-literal decoding is modelled for the escapes that can arise and validated on every case.",
    technique="Lean 4 proof by induction on the string; differential correspondence; exec round-trip oracle",
    ref="§5 C06")
CHECKS["C02"] = dict(
    text="Lean: the TREE-LEVEL theorem transpile_wf — for EVERY parsed program (every structure, modifier and token kind, any nesting) "
         "whose X / x stand where parse recorded them (decidable predicate placedL; it fails exactly at the F5/F26 call sites), the "
         "transpiler model's output is well formed in the context-sensitive sense compile() checks (break / continue inside a loop of the "
         "same function, return inside a function, no empty block, only nodes of the emitted grammar) — by mutual induction over "
         "transpileS / wrapLambda / transpileL / transpileLL, from: every template of the regenerated element/modifier tables parses and "
         "is well formed in every context (templates_parse, templates_wf, template_valid_everywhere via a monotonicity theorem of wfL), "
         "one lemma per structure template, and break_outside_loop_not_wf for the failing placement. Tie: ast.parse of the real output "
         "vs the Lean transpiler model on every generated program; the model's placedL / wfL verdicts vs CPython's compile() verdict on "
         "the same programs (placed stream); direct oracle transpile + compile().",
    note=COMMON_NOTE + "T3: compile() is the judge of valid Python (wfL models what it checks beyond the grammar; validated per program). "
         "The step from text to tree is the AST correspondence. Known findings F5/F26 (break emitted outside a loop) and F7 (live string "
         "escapes) are classified by call site; F5/F26 are exactly the programs the hypothesis placedL excludes.",
    technique="Lean 4 proof (mutual structural induction over the transpiler model; kernel evaluation over regenerated tables; monotonicity "
              "induction; per-template lemmas); AST-level and verdict-level differential correspondence; compile() oracle",
    ref="§5 C02")
CHECKS["C12"] = dict(
    text="Lean: a delta typing of the control-flow skeleton of generated Python (four counters, break/continue/return, nested defs, "
         "try) with a soundness theorem against a nondeterministic execution relation (any conditions, any iteration counts): accepted "
         "code restores all four bookkeeping depths on every normal exit (balanced_sound, function_body_balanced); kernel-checked table "
         "theorems that every element/modifier template and every helper of the repository that touches the lists is accepted; schematic "
         "theorems for the for / while / lambda templates with X / x at the depth the templates place them; the delta typing is "
         "translation invariant and weakening-closed (neutral_everywhere: a template balanced at top level is neutral wherever it is "
         "spliced in); and the TREE-LEVEL theorem transpile_balanced / transpiled_program_restores_depths: for EVERY parsed program "
         "(every structure, modifier and token kind, any nesting) whose X / x stand at the depth their template undoes (decidable "
         "predicate bplL: a loop's X in that loop's body, a lambda's X directly in its body — it fails exactly at the X-in-a-while-"
         "condition / X-in-a-list-item call sites) the transpiler model's output is accepted, hence every normally finishing execution "
         "restores all four depths — mutual induction over transpileS / wrapLambda / transpileL / transpileLL with a context "
         "(plain / loop body / lambda body) and its depth invariant. Tie: AST correspondence of the "
         "transpiler model; the model's bplL / balancedTop verdicts on every generated program (verdict stream); depth-tuple oracle after every top-level statement of generated terminating programs, and `n` at the end.",
    note=COMMON_NOTE + "Calls are no longer assumed neutral: balanced_sound_calls / transpiled_program_restores_depths_calls run over an execution relation in which every statement may call - to any depth, "
         "recursively - the functions and lambdas the code defines and the repository's helpers; those bodies are checked (defsL_ok: every def the checker reaches is accepted as a function body; helper_functions_balanced), "
         "and the soundness induction is over the derivation, calls included (Lemmas/BalanceCalls.lean). Abnormal termination is outside the property.",
    technique="Lean 4 proof (abstract interpretation + soundness by mutual induction on derivations; translation invariance; mutual structural induction over the transpiler model; decide +kernel over regenerated templates and helper bodies); AST correspondence; depth oracle",
    ref="§5 C12")
CHECKS["C18"] = dict(
    text="Lean: in the transpiler model program text can enter the output only through five constructors; theorems show the generated "
         "tables contain none of them, that every string is escaped into exactly one Python literal body (escape_is_one_literal, all "
         "strings), that the lexer only lets digits/points/degree signs into number tokens and letters/underscore into variable tokens "
         "(invariants of the tokenise loop), that the text handed to sympy is made of those characters and a fixed alphabet, and that every "
         "identifier a token or template builds is a fixed prefix plus [A-Za-z0-9_]* (token_holes_ok, sanitise_ident, template_names_ok); "
         "and the TREE-LEVEL theorem names_from_vocabulary: for EVERY parsed program (every structure, modifier, token kind, any nesting) "
         "every program-derived identifier of the transpiler model's output is sanitised and everything else the program supplies is a "
         "constant — mutual induction over transpileS / wrapLambda / transpileL / transpileLL; its only hypothesis on the tree is the "
         "lexer's guarantee on variable tokens (vtokL), which names_from_vocabulary_source discharges for EVERY source string: the lexer only "
         "lets letters into variable tokens (lex_variable_letters) and the parser only puts tokens of its input into the tree (parse_vtok, "
         "induction over the parser's recursion). "
         "Tie: AST correspondence; ast.walk oracle on the real output against the regenerated vocabulary, adversarial payloads at every "
         "program-text position (exhaustive to length 2/3), attacks on the escaping of string constants, and random code-page / Unicode strings; "
         "the same with the V flag on (one-character variable names: Model/LexerV.lean, lexV_variable_letters, tied by the tokV stream; the tree-level theorems are stated for the default lexer).",
    note=COMMON_NOTE + "The step from the emitted text to the tree is the AST correspondence. T3: repr(str)/str(int) produce valid literals.",
    technique="Lean 4 proof (mutual structural induction over the transpiler model, lexer loop invariants, induction on strings, kernel evaluation over tables); AST correspondence; ast.walk vocabulary oracle",
    ref="§5 C18")

CHECKS["C13"] = dict(
    text="Lean: a machine that follows LazyList.py method by method over a finite source, the invariant `cache = prefix of the source`, "
         "and history_correct: for ALL source lists and ALL observation histories every answer (indexing incl. negative and wrap-around, "
         "slices of both kinds — those counted from the end and the forward-loop ones that pull only as far as they need —, length, iteration, truthiness, membership with early exit, equality, counting, reversal, copying, "
         "indexing a copy) equals the plain list's answer and the denoted sequence never changes (induction over the history, one "
         "correctness lemma per method). Tie: the same histories on the real class vs the machine (exhaustive to length 2/3 over 37 "
         "operations on all lists of length <= 3), and the direct oracle against a Python list.",
    note=COMMON_NOTE + "Every observation is inside the theorem; the one side condition is that a slice step is not 0 (the method replaces 0 / None "
         "by 1 before anything else). T4: the raw iterator is modelled as a finite list with a position; itertools.tee of a copy as a view that pulls through the parent.",
    technique="Lean 4 proof: state-machine invariant + per-operation refinement lemmas + induction over histories; differential histories on the real class",
    ref="§5 C13")

CHECKS["C11"] = dict(
    text="Lean: the input scopes as a state machine (get_input, pop on an empty stack, the ? template, scope push/pop of the lambda and "
         "function templates) and top_stream / cyclic_stream: for ALL input lists and ALL histories of explicit reads, implicit reads at "
         "any depth and scope entries/exits, the k-th value delivered from the program's inputs is input k mod n (0 without inputs); "
         "inner_stream: inside a scope implicit reads cycle over that call's arguments and explicit reads do not disturb them. Tie: the "
         "same histories on the real ctx / pop / get_input / ? template (exhaustive to length 4/6) and compiled to programs end to end.",
    note=COMMON_NOTE + "inner_stream is stated for a scope until the next entry/exit; nesting is covered by top_stream and by the correspondence. stdin is /dev/null (EOF).",
    technique="Lean 4 proof by induction over operation histories; differential histories on the real helpers; end-to-end programs",
    ref="§5 C11")
CHECKS["C15"] = dict(
    text="Lean: digits/alphabet round trips for every base >= 2 and every duplicate-free alphabet (digits_roundtrip, alphabet_roundtrip, "
         "toDigits_fromDigits), the digit loop of the to-base element under the contract n < b^(e+1) (to_base_elem_roundtrip), and the "
         "composed theorems number_compress_roundtrip / string_compress_roundtrip: the text the compression element produces lexes to ONE "
         "compressed token (kernel-checked alphabet facts: the delimiter is not in the alphabet, no duplicates), parses to one statement and "
         "the transpiler model pushes exactly the original value; dict_compress_roundtrip: a Lean model of the dynamic programme of øD "
         "(optimal_compress + dictionary.word_index) and of the decompressor — every cell of the DP table decodes to the prefix it stands "
         "for and is no longer than it, so the text written decompresses to exactly the string. Tie: every codec function vs the model "
         "(the DP model vs the element included); compress -> run program -> compare, "
         "incl. dictionary compression with its length bound; the floating-point contract is evaluated on the real code for every case.",
    note=COMMON_NOTE + "T6: the exponent of the to-base loop comes from math.log; the theorem assumes the contract, the check measures it. "
         "Dictionary compression is inside the theorem (dict_compress_roundtrip: for every string outside the compression alphabet, every "
         "word list of at most 160^2 words and every max_word_len the DP's text decompresses to the string and is never longer); the bound "
         "on the 23 113-word list is a hypothesis the kernel cannot evaluate (String.splitOn) and is checked on both sides every run.",
    technique="Lean 4 proof by strong induction on n / induction on digit lists, kernel evaluation of alphabet facts; differential correspondence; exec round-trip oracle",
    ref="§5 C15")
CHECKS["C07"] = dict(
    text="Lean: a number is a rational with its Python representation (int / Integer / Rational, no float constructor); theorems *_exact "
         "for the six operators with the zero guards of / and floor division, results_normal (integer-valued iff integer representation), "
         "div_mul_cancel / mul_div_cancel / divmod_identity with equality, expr_tree_exact for trees of any depth. Tie: value AND "
         "representation class of the real operators vs the model on exhaustive small pairs in every representation and random large ones; "
         "oracle against fractions.Fraction by type and exact equality, and expression trees run as programs.",
    note=COMMON_NOTE + "T5: sympy's Integer/Rational arithmetic and Mod are taken as exact and validated per case (this is how F27, an off-by-one in sympy's own floor division, was found).",
    technique="Lean 4 proof over core Rat (field and floor lemmas); differential correspondence incl. representation; Fraction oracle",
    ref="§5 C07")

CHECKS["C16"] = dict(
    text="Lean: models that follow the Python loops of the list builtins whose algorithm lives in the repository, and laws proved for ALL "
         "lists: reverse involution; uniquify = same members, no duplicates, original order, head kept; cumulative sums = prefix sums and "
         "deltas undoes them; interleave/uninterleave inverse; wrap's chunks concatenate back with bounded length; prefixes = take(i+1); "
         "group-consecutive concatenates back with constant groups; counts = distinct items with multiplicities; sort = ordered "
         "permutation; sum append/reverse laws. Tie: 13 elements vs their models on exhaustive small lists; ~40 law oracles on the real "
         "elements (sort, flatten, zip, transpose, sublists, powerset, permutations, cartesian product, grading, membership, ...).",
    note=COMMON_NOTE + "powerset (powerset_eq_sublists: the element's doubling loop is List.sublists — exactly the sub-sequences, 2^n of them, no repetition for a "
         "duplicate-free list), permutations (n! lists, each a rearrangement), sublists (contiguous_mem: exactly the non-empty contiguous pieces, n(n+1)/2 of them), "
         "overlapping groups (windows_spec: window i = take k (drop i l), n+1-k of them) and run-length coding (rld_rle / rle_rld / rle_runs: inverse bijections between lists and lists of maximal runs) "
         "and the cartesian product (Model/Cartesian.lean follows the diagonal walk with its lhs_max / rhs_max bookkeeping, for lists and lazy lists; cartesian_diagonals: the output is the existing pairs "
         "of diagonal 0, 1, 2, ... each by increasing left index; cartesian_perm: a rearrangement of the full product, every pair of positions once) are theorems now. Partial: what sorted() does is covered by the law "
         "oracles only (T5). Known finding F30: the empty product is 0.",
    technique="Lean 4 proof by induction on lists over loop-faithful models; differential correspondence; executable law oracles",
    ref="§5 C16")
CHECKS["C17"] = dict(
    text="Lean: executable references for primality, divisors, factorial, binomial, totient, lcm, prime factors, next prime, binary digits "
         "and the ranges, with theorems that each reference IS the textbook definition (isPrimeB_iff, mem_divisors, choose_mul_fact: "
         "C(n,k) k! (n-k)! = n!, lcm_spec, primeFactors_dvd, nextPrime_spec, range_specs, bin_roundtrip). Tie: the real elements (which "
         "delegate to sympy/math) vs the references and vs naive Python definitions for every n up to 600/20000 and all pairs up to 40/300, "
         "inverse pairs composed, and a repeat-after-mutation oracle (answers must not be shared objects).",
    note=COMMON_NOTE + "Partial by nature: Lean proves reference = definition; that sympy agrees with the reference is established only on the ranges run (T5).",
    technique="Lean 4 proof (elementary number theory on executable references, no Mathlib); differential correspondence; naive-definition oracles",
    ref="§5 C17")

CHECKS["C09"] = dict(
    text="Lean: a verified static analysis of the regenerated element templates. classify reads a template as stack operations (pops with "
         "literal counts incl. nested pop calls, peeks, pushes, extends, neutral statements, if/loops; anything else mentioning `stack` is "
         "whole-stack), depth bounds how deep it reaches, and stack_effect_sound proves against a concrete semantics (any value type, any "
         "helper results, any branch, any iteration count) that a bound d <= k keeps pre of pre ++ args (|args| = k) as the same untouched "
         "list. Kernel-checked table theorems: every entry's bound is exactly its arity, and the unbounded entries are exactly the "
         "documented whole-stack operations. The meaning given to pop(stack, k, ctx) in that semantics is itself proved of a model that follows the "
         "loop of helpers.pop (pop_frame: exactly the top k leave, top first, everything below is the same list, no input is read; pop_retain: "
         "under retain_popped the stack is unchanged; pop_short: on a short stack the missing values are the next inputs). "
         "Tie: the table is regenerated on every run; the pop model against the real helper on every (stack length, count, flags) up to 5; sentinel-prefix runs of every key and of "
         "modifier x element on generated argument tuples (identity and contents of the prefix, also on exceptions); the documented whole-stack "
         "operations ^ W ! „ ‟ Ȯ against their documented result at every depth 0..4.",
    note=COMMON_NOTE + "T7: statements that do not mention `stack` are neutral (a helper could reach the stack through ctx.stacks[-1]): validated by the sentinel "
         "runs, which found exactly that for printing a function value (known finding F31). Modifier templates pop a run-time arity: sentinel runs only.",
    technique="Lean 4 proof: abstract interpretation + soundness by mutual induction on derivations; decide +kernel over regenerated templates; sentinel differential",
    ref="§5 C09")
CHECKS["C10"] = dict(
    text="Lean: a reference-level heap model (lists, and deep_copy as a lazy VIEW of the same object) with the frame theorem "
         "history_immutable: any history of allocations, copies and writes into objects allocated during the history leaves every earlier "
         "reference denoting the same value at every depth; the repaired assign is such a history and the shipped one is proved not to be "
         "(the view changes, exactly the reproduced defect); mutation_sites_accounted re-checks the regenerated inventory of in-place "
         "writes to parameters against the audited list. Tie: translator (inventory incl. the rebinding that makes a write fresh); "
         "snapshot differential of every element's arguments, and copy-then-transform programs over dup, triplicate, variables, register, global array.",
    note=COMMON_NOTE + "Partial: that the ~330 element bodies respect the frame condition is an assumption (T7) backed by the inventory theorem and the snapshot runs, not a proof of each body.",
    technique="Lean 4 proof (heap model, prefix-dependence lemma by induction on depth, induction over histories); regenerated inventory; snapshot differential",
    ref="§5 C10")

CHECKS["C08"] = dict(
    text="Lean: the dispatch skeleton shared by the vectorising elements (scalar overload or fall through to vectorise of itself) as d2 / d1 "
         "over nested lists, with the element-wise laws for every scalar overload and all lists (list x scalar, scalar x list, list x list "
         "position by position with vy_zip's 0 padding, per-item getElem forms, one more nesting level, fuel independence), and kernel-checked "
         "table theorems over the translator's classification of every documented-vectorising element's function body "
         "(documented_vectorising_conform, hand_classified_are_exactly_the_rest). Tie: classification regenerated each run; the shared "
         "helper `vectorise` driven with a labelled pairing function vs the Lean skeleton; element-wise oracle on the real elements for flat / "
         "nested / eager / lazy arguments in all shapes.",
    note=COMMON_NOTE + "Partial: scalar overloads are opaque (T5) and conformance is syntactic; the oracle uses the element on scalars as the item reference. Known finding F19c (∆f).",
    technique="Lean 4 proof (equational laws of the skeleton, induction for fuel independence, decide +kernel over regenerated classification); differential skeleton correspondence; element-wise oracle",
    ref="§5 C08")

CHECKS["C14"] = dict(
    text="Lean: lazy transformations as pulling machines over an infinite source with a cursor; take is total (structural recursion: "
         "the first n items always exist) and for each modelled machine the pulls for n outputs are bounded for EVERY n and EVERY source: map / "
         "cumsum / enumerate / prefixes <= n, deltas <= n+1, windows <= n+k, chunks <= k n, prepend <= n, slice-from <= n+k, every-other <= 2n, "
         "filter / uniquify <= c n (and filter_finds under the density hypothesis), zip / interleave with a mapped copy <= n, finite list in front / added <= n, flatten of chunks <= n+1; bound_compose keeps pipelines of any depth linear. Tie: outputs AND "
         "pull counts of the real elements on an instrumented infinite source vs the machines; oracle: the first n items of 27 catalogued "
         "transformations and their compositions arrive within the composed linear bound.",
    note=COMMON_NOTE + "Partial: CPython's generator protocol and itertools are not modelled (T4); 35 of the 36 catalogue entries run against a Lean machine with a proved bound (every vectorised scalar/list shape is the generic map machine, bound_map for any f; zip / interleave with a mapped copy, a finite list in front or added item by item, vectorising over chunks, flatten of chunks, uniquify and group-consecutive - the last two with a window on the search / run length - have machines of their own); the bound of the remaining one (halve: rational items) is a stated linear bound checked by the oracle only.",
    technique="Lean 4 proof (state machines, induction on the number of outputs, a generic step-bound lemma); differential outputs + pull counts; pull-bound oracle",
    ref="§5 C14")

CHECKS["C19"] = dict(
    text="Lean: an effect model of every place where the interpreter decides by ctx.online (printing, evaluate, call on a string, execute, "
         "input parsing, the error wrappers) with theorems for ALL operation sequences: online there is no host output, no eval/exec of user "
         "text, no propagated exception, and the output record collects every text handed to a print operation (the sequence that goes to stdout offline); kernel-checked sinks_accounted over the regenerated "
         "inventory of every syntactic sink call (in vyxal/*.py AND inside the element templates) with its dominating ctx.online tests, and "
         "user_text_sinks_guarded over the audited classification, and containment_handlers_broad over the regenerated inventory of every "
         "try statement: the five error-containment sites (vy_eval online, get_input, the three stages of execute_vyxal) exist and catch "
         "Exception. Tie: translator (inventory) + child-process runs under sys.addaudithook "
         "with fd-level stdout capture and tainted inputs / literals: host stdout empty, no tainted compile/exec outside string constants of "
         "generated code, no os.system / subprocess / socket events, errors end in the error record, nothing the offline run prints is missing from the record (the values themselves may differ where text reaches vy_eval: literal-only online, eval offline).",
    note=COMMON_NOTE + "Partial: the theorem is over the effect model; that no other path reaches a sink rests on the syntactic inventory (T8) and the audit-hook runs. "
         "input() at end of input reads the host's stdin in both modes (not an execution of user text).",
    technique="Lean 4 proof (effect traces, induction over operation sequences, decide +kernel over the regenerated sink inventory); audit-hook differential online vs offline",
    ref="§5 C19")

CHECKS["C01"] = dict(
    text="Lean: three executable pieces — the reference semantics of the parsed tree (RefSem: documents/specs applied to the Structure "
         "tree, every structure and modifier of the property, flags, implicit output), the model of transpile.py (Transpile, element "
         "and modifier templates regenerated from the source), and a semantics of the emitted Python fragment (PySem) — and the "
         "compiler-correctness theorems simulation / call_protocol / named_call_protocol / compile_correct / compile_correct_source (the same from ANY source string whose lexed tokens are covered: the parser only puts input tokens into the tree, parse_allTok): for EVERY program over the covered "
         "element tokens (EVERY STRUCTURE AND MODIFIER of the property: integer literals; every element whose table entry is the process_element boilerplate of a first-order function — "
         "237 entries —; the 21 hand-written stack / context / input / register / printing templates; global variables; if chains of "
         "any length; for over numbers / lists with unnamed / named / ghost loop variable; while with and without a condition; break / "
         "continue; LAMBDAS with their call protocol — arity from the caller, stored_arity or declaration, arguments popped by reference "
         "or from safe_apply, own stack / input scope / context value, result or early return with X —; map / filter / sort lambdas and the "
         "elements M F sort-by on function values; the call element; LIST LITERALS (every item in its own frame on a copy of the stack); "
         "NAMED FUNCTIONS — definition, the parameter prologue with counts / names / *, the call by reference on the caller's stack, "
         "recursion —; the EIGHT MODIFIERS & v ~ ß ƒ ɖ ₌ ₍ (operand wrapped by lambda_wrap, function_A = pop(stack, 1, ctx), "
         "the template incl. retain_popped, stored_arity, the stack copy of the parallel modifiers); any nesting), every input list, every flag set, every fuel: "
         "wherever the reference semantics is defined, the Python semantics of the transpiled program yields the same final stack and "
         "the same printed text incl. the implicit output. Proof: strong induction on fuel outside, structural induction on the program "
         "inside, a simulation relation with function frames and closure tables; parametric in the element library; table facts by "
         "kernel evaluation over the regenerated element table. Tie: real execute_vyxal vs RefSem (the property's own oracle) and vs "
         "PySem∘Transpile on every generated program of the FULL grammar (named functions, list literals, all modifiers too); RefSem "
         "vs PySem∘Transpile directly; ast.parse(transpile(p)) vs the transpiler model; element functions vs CoreLib.elemFn.",
    note=COMMON_NOTE + "Partial in a named way: the theorem is one-directional (wherever the reference semantics gives the run a meaning) "
         "and covers every structure and modifier but only the element tokens whose table entry has one of the proved shapes "
         "(237 boilerplates, 21 core templates, map / filter / sort-by, the call element; integers and variables among literals); "
         "runs the reference semantics marks unmodelled (functions defined inside functions, continue in while, strings, "
         "non-integer numbers, …) are covered by the correspondence streams only. "
         "The reference semantics follows the implementation where documents/specs is silent or stale (numeric loops run "
         "over [range_start, n + range_end), an if does not set the context value, lambdas receive arguments in pop order). Lazily consumed "
         "lambda bodies are generated pure (C13/C14 own laziness). T3/T4: CPython executes the fragment as PySem says (validated per case).",
    technique="Lean 4 proof (compiler correctness: strong induction on fuel, structural induction on the program, simulation relation with "
              "frames and closure tables; parametric in the element library; decide +kernel over the regenerated element table); "
              "differential correspondence real vs reference semantics vs Python semantics of the model's transpilation",
    ref="§5 C01")

NOT_YET = {}

def main():
    props = [json.loads(l) for l in open(os.path.join(VERIF, "properties.jsonl"), encoding="utf-8")]
    checks, na = [], []
    for p in props:
        pid = p["id"]
        if pid in CHECKS:
            c = CHECKS[pid]
            checks.append({
                "property_id": pid,
                "quick_cmd": f"./check {pid} --tier quick",
                "thorough_cmd": f"./check {pid} --tier thorough",
                "evidence_file": f"evidence/{pid}.json",
                "replay_cmd_template": f"./check {pid} --replay {{path}}",
                "engine": "lean4-model",
                "level_claimed": {"category": "proof", "text": c["text"], "design_ref": c["ref"]},
                "level_note": c["note"],
                "technique": c["technique"],
            })
        else:
            na.append({"property_id": pid, "reason": NOT_YET.get(pid, "check not built yet in this tree (planned, see DESIGN.md §9); nothing is claimed for it")})
    man = {
        "version": 1,
        "setup_cmd": "tools/setup.sh",
        "hooks": {"guard": "MATHCAT4_VYXAL2_VERIF", "enable": "no source hooks are needed: checks import /repo in-process and patch nothing in the tree",
                  "baseline_off_cmd": "cd /repo && /venv/bin/python -m pytest -q -p no:cacheprovider --timeout=900",
                  "source_commits": [], "add_only": True},
        "engines": [{"name": "lean4-model", "path": "lean/", "serves_properties": [c["property_id"] for c in checks],
                     "kind_free_text": "Lean 4 executable model + theorems (lake project, no Mathlib require), translator tools/extract.py, compiled driver vyxdrv, Python correspondence harness harness/"}],
        "checks": checks,
        "notes": "Every check: ./check <id> regenerates Gen/*.lean from /repo, rebuilds the property's proof module, audits axioms, runs the correspondence and the direct oracles, and searches for a failing input when an obligation or the correspondence breaks. Exit 2 = the check's own machinery timed out. setup_cmd (tools/setup.sh) only regenerates and pre-builds: a proof module that no longer checks against the current source does not fail setup (it is reported by the check of its property); setup fails only when the toolchain is unusable.",
        "not_applicable": na,
    }
    with open(os.path.join(VERIF, "MANIFEST.json"), "w", encoding="utf-8") as f:
        json.dump(man, f, ensure_ascii=False, indent=1)
    print("MANIFEST.json:", len(checks), "checks,", len(na), "not claimed")

if __name__ == "__main__":
    main()
