#!/usr/bin/env python3
"""Writes MANIFEST.json from the table below (kept in one place so that it is always valid)."""
import json, os
VERIF = os.path.dirname(os.path.dirname(os.path.abspath(__file__)))

COMMON_NOTE = ("Trusted: Lean 4.33 kernel (axioms ⊆ propext, Classical.choice, Quot.sound; audited by #print axioms each run; "
               "no sorry/native_decide), the translator tools/extract.py (Gen/*.lean regenerated from /repo on every run), "
               "the correspondence harness (real code vs compiled Lean driver on generated cases). ")

CHECKS = {
    "C20": dict(
        text="Machine-checked table theorems over the regenerated code page / element / modifier / structure / documentation "
             "tables (kernel evaluation, no axioms) plus inductive round-trip theorems for ALL byte strings and code-page texts; "
             "lexer and parser models used in the theorems are tied to the real tokenise/parse on every key; the domain of the "
             "property is finite and the direct oracles enumerate it completely.",
        note=COMMON_NOTE + "Known findings F17 (duplicate key ÞR) and F18 (dead entry x) are excluded by name in the partial theorems.",
        technique="Lean 4 proof: decide +kernel over translator-regenerated tables + induction for the round trips; exhaustive correspondence",
        ref="§5 C20"),
}

CHECKS["C03"] = dict(
    text="Lean theorems for all programs and all payloads: the lexer reads a rendered literal of each of the seven kinds back as one "
         "unit whatever its (valid) payload and continuation (lex_literal), parsing commutes with erasing literal payloads "
         "(parse_erase, by the parser's own recursion), hence literal_payload_irrelevant at source level. Tie: real tokenise/parse "
         "vs the Lean models on every generated program; direct shape oracle on the real parser over 42 contexts x 7 kinds x payloads "
         "over the 28 syntax-significant characters (exhaustive to length 2 in the thorough tier).",
    note=COMMON_NOTE + "The theorem excludes literals in the three headers the grammar reads as text (lambda arity, @ header, loop variable: hdrOK); "
         "model fuel = token count + 1 (a `fuel` error has never been observed in the correspondence).",
    technique="Lean 4 proof by induction over lexer steps and the parser's recursion; differential lexer/parser correspondence; shape oracle",
    ref="§5 C03")
CHECKS["C04"] = dict(
    text="Lean theorem parse_append_closers: appending any prefix of the pending closers to a token list never changes the parse "
         "(every structure, modifier and parent kind, any nesting), lexer lemmas for unterminated string / compressed literals at end "
         "of input, and the source-level truncation_invariant_partial. Tie: lexer/parser correspondence; direct oracle "
         "parse(closed) == parse(truncated) for every number of dropped closers on grammar-generated programs (thorough: all programs "
         "of <= 6 symbols over a 16-symbol alphabet).",
    note=COMMON_NOTE + "Partial in one named way: the parser theorem is proved for token lists without @ (function definitions/references); "
         "@ programs are covered by the correspondence and the oracle only.",
    technique="Lean 4 proof (state-machine view of _get_branches + induction on the parser's recursion); differential correspondence; truncation oracle",
    ref="§5 C04")
CHECKS["C05"] = dict(
    text="Lean theorems for all digit strings: lex_integer, lex_leading_zero, lex_decimal, lex_second_point on the lexer model; "
         "number_parts_plain / uses_rational_iff on the model of the NUMBER template (the text handed to sympy is the literal itself and a "
         "literal with a point goes to the exact constructor); integer_value / decimal_value (a.b denotes (a*10^|b|+b)/10^|b|). Tie: lexer "
         "and template correspondence (exhaustive short strings), value stream: exec(transpile(lit)) compared by type and exact equality "
         "with fractions.Fraction and with the model, incl. an adversarial family aimed at mpmath.identify.",
    note=COMMON_NOTE + "T5: sympy's own string parsers are assumed exact and validated per literal, not proved. Known finding F25: integer literals "
         "go through sympy.nsimplify(<string>) whose text is pinned by the existing test; 258 of 0..20000 are mis-evaluated.",
    technique="Lean 4 proof by induction on digit strings; differential lexer/template/value correspondence against fractions.Fraction",
    ref="§5 C05")

NOT_YET = {}

def main():
    props = [json.loads(l) for l in open(os.path.join(VERIF, "properties.jsonl"), encoding="utf-8")]
    checks, na = [], []
    for p in props:
        pid = p["id"]
        if pid in CHECKS:
            c = CHECKS[pid]
            checks.append({
                "property_id": pid,
                "quick_cmd": f"./check {pid} --tier quick",
                "thorough_cmd": f"./check {pid} --tier thorough",
                "evidence_file": f"evidence/{pid}.json",
                "replay_cmd_template": f"./check {pid} --replay {{path}}",
                "engine": "lean4-model",
                "level_claimed": {"category": "proof", "text": c["text"], "design_ref": c["ref"]},
                "level_note": c["note"],
                "technique": c["technique"],
            })
        else:
            na.append({"property_id": pid, "reason": NOT_YET.get(pid, "check not built yet in this tree (planned, see DESIGN.md §9); nothing is claimed for it")})
    man = {
        "version": 1,
        "setup_cmd": "tools/extract.py && cd lean && lake build",
        "hooks": {"guard": "MATHCAT4_VYXAL2_VERIF", "enable": "no source hooks are needed: checks import /repo in-process and patch nothing in the tree",
                  "baseline_off_cmd": "cd /repo && /venv/bin/python -m pytest -q -p no:cacheprovider --timeout=900",
                  "source_commits": [], "add_only": True},
        "engines": [{"name": "lean4-model", "path": "lean/", "serves_properties": [c["property_id"] for c in checks],
                     "kind_free_text": "Lean 4 executable model + theorems (lake project, no Mathlib require), translator tools/extract.py, compiled driver vyxdrv, Python correspondence harness harness/"}],
        "checks": checks,
        "notes": "Every check: ./check <id> regenerates Gen/*.lean from /repo, rebuilds the property's proof module, audits axioms, runs the correspondence and the direct oracles, and searches for a failing input when an obligation or the correspondence breaks. Exit 2 = the check's own machinery timed out.",
        "not_applicable": na,
    }
    with open(os.path.join(VERIF, "MANIFEST.json"), "w", encoding="utf-8") as f:
        json.dump(man, f, ensure_ascii=False, indent=1)
    print("MANIFEST.json:", len(checks), "checks,", len(na), "not claimed")

if __name__ == "__main__":
    main()
