#!/usr/bin/env python3
"""Writes MANIFEST.json from the table below (kept in one place so that it is always valid)."""
import json, os
VERIF = os.path.dirname(os.path.dirname(os.path.abspath(__file__)))

COMMON_NOTE = ("Trusted: Lean 4.33 kernel (axioms ⊆ propext, Classical.choice, Quot.sound; audited by #print axioms each run; "
               "no sorry/native_decide), the translator tools/extract.py (Gen/*.lean regenerated from /repo on every run), "
               "the correspondence harness (real code vs compiled Lean driver on generated cases). ")

CHECKS = {
    "C20": dict(
        text="Machine-checked table theorems over the regenerated code page / element / modifier / structure / documentation "
             "tables (kernel evaluation, no axioms) plus inductive round-trip theorems for ALL byte strings and code-page texts; "
             "lexer and parser models used in the theorems are tied to the real tokenise/parse on every key; the domain of the "
             "property is finite and the direct oracles enumerate it completely.",
        note=COMMON_NOTE + "Known findings F17 (duplicate key ÞR) and F18 (dead entry x) are excluded by name in the partial theorems.",
        technique="Lean 4 proof: decide +kernel over translator-regenerated tables + induction for the round trips; exhaustive correspondence",
        ref="§5 C20"),
}

NOT_YET = {}

def main():
    props = [json.loads(l) for l in open(os.path.join(VERIF, "properties.jsonl"), encoding="utf-8")]
    checks, na = [], []
    for p in props:
        pid = p["id"]
        if pid in CHECKS:
            c = CHECKS[pid]
            checks.append({
                "property_id": pid,
                "quick_cmd": f"./check {pid} --tier quick",
                "thorough_cmd": f"./check {pid} --tier thorough",
                "evidence_file": f"evidence/{pid}.json",
                "replay_cmd_template": f"./check {pid} --replay {{path}}",
                "engine": "lean4-model",
                "level_claimed": {"category": "proof", "text": c["text"], "design_ref": c["ref"]},
                "level_note": c["note"],
                "technique": c["technique"],
            })
        else:
            na.append({"property_id": pid, "reason": NOT_YET.get(pid, "check not built yet in this tree (planned, see DESIGN.md §9); nothing is claimed for it")})
    man = {
        "version": 1,
        "setup_cmd": "tools/extract.py && cd lean && lake build",
        "hooks": {"guard": "MATHCAT4_VYXAL2_VERIF", "enable": "no source hooks are needed: checks import /repo in-process and patch nothing in the tree",
                  "baseline_off_cmd": "cd /repo && /venv/bin/python -m pytest -q -p no:cacheprovider --timeout=900",
                  "source_commits": [], "add_only": True},
        "engines": [{"name": "lean4-model", "path": "lean/", "serves_properties": [c["property_id"] for c in checks],
                     "kind_free_text": "Lean 4 executable model + theorems (lake project, no Mathlib require), translator tools/extract.py, compiled driver vyxdrv, Python correspondence harness harness/"}],
        "checks": checks,
        "notes": "Every check: ./check <id> regenerates Gen/*.lean from /repo, rebuilds the property's proof module, audits axioms, runs the correspondence and the direct oracles, and searches for a failing input when an obligation or the correspondence breaks. Exit 2 = the check's own machinery timed out.",
        "not_applicable": na,
    }
    with open(os.path.join(VERIF, "MANIFEST.json"), "w", encoding="utf-8") as f:
        json.dump(man, f, ensure_ascii=False, indent=1)
    print("MANIFEST.json:", len(checks), "checks,", len(na), "not claimed")

if __name__ == "__main__":
    main()
