#!/bin/sh
# MANIFEST.setup_cmd: regenerate Gen/*.lean from /repo's working tree and pre-build the Lean project (model, lemmas, proofs,
# compiled driver) so that the per-property checks only have to rebuild what the current source changes.
#
# Setup prepares; it does not judge.  A proof module that no longer checks against the regenerated tables is exactly what a
# property's check has to report (VIOLATION with a replay) — so a failing proof module must NOT make setup fail, or no check
# would ever run on a tree that breaks a property.  Every check re-runs the translator and `lake build` of its own modules and
# handles their failure itself (harness/core.py run_check, layer A).  Setup fails only when the toolchain itself is unusable.
cd "$(dirname "$0")/.." || exit 1
command -v lake >/dev/null 2>&1 || { echo "setup: lake is not on PATH"; exit 1; }
[ -x /venv/bin/python ] || { echo "setup: /venv/bin/python is missing"; exit 1; }

tools/extract.py || echo "setup: the translator reported a failure on the current source; each property's check reports it"

cd lean || exit 1
if lake build; then
  echo "setup: lean project built"
  exit 0
fi
echo "setup: some modules did not build against the current source (see above); the checks of the properties they belong to"
echo "setup: rebuild them and report — verifying that the toolchain itself works:"
# a module that does not depend on anything generated from /repo
if lake build VyxalModel.Model.GenTypes; then
  echo "setup: toolchain ok"
  exit 0
fi
echo "setup: lake cannot build a source-independent module — the toolchain is unusable"
exit 1
