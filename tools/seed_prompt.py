import sys
x, prop, hint = sys.argv[1], sys.argv[2], sys.argv[3]
wt=f"/tmp/seedwt_{x}"
print(f"""You are working in a scratch git worktree of the Vyxal 2 interpreter (a stack-based golfing language: lexer, parser, transpiler to Python, element library) at {wt}. Work ONLY inside {wt}. Never touch /repo or /verif, and do not read anything under /verif either (not even a directory listing): your change must be designed from the property and the source alone. Never use `git stash`. Run Python with /venv/bin/python (the package imports from the worktree when you run from {wt}, e.g. `cd {wt} && /venv/bin/python -c "import vyxal; print(vyxal.__file__)"` — check that it prints a path under {wt}; if not, set PYTHONPATH={wt}). The existing test suite is run with: `cd {wt} && /venv/bin/python -m pytest -q -p no:cacheprovider --timeout=900`. Always run experiments under `timeout 120` (some Vyxal programs loop forever).

Here is a semantic property the interpreter is supposed to satisfy (read it from /tmp/prop_{prop}.json — it contains the statement, the quantifier and the anchors in the code).

Your task: make ONE small, realistic-looking change to the source under {wt}/vyxal (the kind of thing a maintainer might plausibly do as a refactor, optimisation, clean-up or "bug fix") that BREAKS this property, while (a) everything still imports, (b) the full existing test suite still passes (392 tests), and (c) the breakage needs something specific to manifest (a particular shape of input, nesting, flag, value range or history) so that casual use would not notice it. {hint} Do not change the tests.

Deliver in {wt}/seed/ :
 - demo.py : a script run as `cd {wt} && /venv/bin/python seed/demo.py` that exits with code 1 if the property is violated (i.e. with your change applied) and 0 on the original code; it should print the failing input and what was expected versus observed. It must import vyxal from the worktree (insert the worktree root at the front of sys.path).
 - notes.md : what you changed, why it breaks the property, and exactly what is needed to see it.
Leave your change APPLIED (uncommitted) in the worktree at the end. Before finishing verify: (1) demo exits 1 with the change; (2) save your diff with `git diff -- vyxal > {wt}/seed/patch.diff`, then `git apply -R seed/patch.diff`, run the demo (must exit 0), then `git apply seed/patch.diff` again; (3) the full test suite passes with the change applied. Report: the diff, the demo output with and without the change, and the last line of the pytest run.""")
