#!/bin/bash
# tools/seedtest.sh <worktree> <seed-id> <property> : confirm a seeded change, keep it under seeded/, run the property's check against it
set -u
WT=$1; ID=$2; PROP=$3
cd "$WT" || exit 9
echo "== demo with the change"; timeout 300 /venv/bin/python seed/demo.py > /tmp/seed_demo_with.txt 2>&1; W=$?; tail -3 /tmp/seed_demo_with.txt
git stash -q -- vyxal documents
echo "== demo without the change"; timeout 300 /venv/bin/python seed/demo.py > /tmp/seed_demo_without.txt 2>&1; O=$?; tail -2 /tmp/seed_demo_without.txt
git stash pop -q
echo "== suite with the change"; timeout 900 /venv/bin/python -m pytest -q -p no:cacheprovider --timeout=900 2>&1 | tail -1 > /tmp/seed_suite.txt; cat /tmp/seed_suite.txt
git diff -- vyxal documents > /tmp/seed_patch.diff
echo "demo exit with=$W without=$O"
mkdir -p /verif/seeded/$ID && cp /tmp/seed_patch.diff /verif/seeded/$ID/patch.diff && cp seed/demo.py /verif/seeded/$ID/demo.py && cp seed/notes.md /verif/seeded/$ID/notes.md 2>/dev/null
cd /verif
# The check is pointed at the agent's worktree (VERIF_REPO) — /repo itself is NEVER patched: an interrupted run once left a seeded
# change applied in /repo (DESIGN §11.4), and this way an interruption leaves nothing behind but the scratch worktree.
git -C /repo apply --check /verif/seeded/$ID/patch.diff || { echo "PATCH DOES NOT APPLY"; exit 8; }
echo "== check $PROP against the change (VERIF_REPO=$WT)"
VERIF_REPO=$WT timeout 1500 ./check $PROP > /tmp/seed_check.txt 2>&1; C=$?
grep -a "VIOLATION\|^  failing input\|^  broken\|^  correspondence\|quick:" /tmp/seed_check.txt | head -8
# the run above rewrote evidence/<prop>.json and harness/gen.json from the CHANGED tree: put the committed ones back
git -C /verif checkout -- evidence/$PROP.json harness/gen.json lean/VyxalModel/Gen 2>/dev/null
echo "check exit=$C"
python3 - "$ID" "$PROP" "$W" "$O" "$C" <<'PY'
import json,sys,re
id_,prop,w,o,c=sys.argv[1:]
suite=open('/tmp/seed_suite.txt').read().strip()
chk=open('/tmp/seed_check.txt',errors='replace').read()
m=re.search(r'^VIOLATION.*$',chk,re.M)
fi=re.search(r'^  failing input: (.*)$',chk,re.M)
notes=open(f'/verif/seeded/{id_}/notes.md').read() if True else ''
meta={"seed":id_,"breaks_property":prop,"needs_to_manifest":notes.strip()[:1200],
      "confirmed":{"demo_exit_with_change":int(w),"demo_exit_without_change":int(o),"suite_with_change":suite},
      "check":{"command":f"./check {prop} --tier quick","exit":int(c),"violation_line":m.group(0) if m else None,
               "failing_input":fi.group(1)[:500] if fi else None},
      "procedure":"agent worktree: demo with/without the change (git stash), full suite with the change; then VERIF_REPO=<worktree> ./check (the patch is verified to apply to /repo, /repo is not touched)"}
json.dump(meta,open(f'/verif/seeded/{id_}/meta.json','w'),ensure_ascii=False,indent=1)
print("detected" if int(c)==1 and m else "MISSED")
PY
cd /verif && tools/extract.py >/dev/null 2>&1   # Gen/ back to the unchanged tree
