/-! Probe for C11: the input scopes of `helpers.get_input` / `pop` as a state machine. -/
namespace Inp

structure Sc where
  vals : List Int
  cur : Nat
  deriving Repr

structure St where
  top : Sc               -- ctx.inputs[0] : the program's inputs
  inner : List Sc        -- ctx.inputs[1:], innermost first
  deriving Repr

def cyc (vals : List Int) (i : Nat) : Int := if vals = [] then 0 else vals[i % vals.length]?.getD 0

/-- read from one scope: cyclic, cursor advances; an empty scope yields 0 and does not move -/
def Sc.read (s : Sc) : Int × Sc := if s.vals = [] then (0, s) else (cyc s.vals s.cur, { s with cur := s.cur + 1 })

inductive Op
  | explicit                 -- the `?` element: ctx.use_top_input = True
  | implicit                 -- a pop from an empty stack in the current scope
  | enter (args : List Int)  -- lambda / function prologue: ctx.inputs.append([args[::-1], 0])
  | leave                    -- epilogue: ctx.inputs.pop()

/-- one operation; the result says whether the value came from the program's inputs -/
def step (st : St) : Op → St × Option (Bool × Int)
  | .explicit => let (v, t) := st.top.read; ({ st with top := t }, some (true, v))
  | .implicit =>
    match st.inner with
    | [] => let (v, t) := st.top.read; ({ st with top := t }, some (true, v))
    | s :: rest => let (v, s') := s.read; ({ st with inner := s' :: rest }, some (false, v))
  | .enter args => ({ st with inner := ⟨args.reverse, 0⟩ :: st.inner }, none)
  | .leave => ({ st with inner := st.inner.tail }, none)

/-- values delivered from the program's inputs, in order -/
def topReads : List Op → St → List Int
  | [], _ => []
  | op :: ops, st =>
    match step st op with
    | (st', some (true, v)) => v :: topReads ops st'
    | (st', _) => topReads ops st'

theorem read_vals (s : Sc) : s.read.2.vals = s.vals := by
  unfold Sc.read; split <;> rfl

/-- C11, first sentence: whatever mixture of explicit reads, implicit reads at any depth, and scope
    entries/exits happens, the k-th value taken from the program's inputs is input number
    (cursor + k) mod n — and 0 when there are no inputs. -/
theorem top_stream (ops : List Op) : ∀ (st : St),
    ∃ k, topReads ops st = (List.range k).map (fun i => cyc st.top.vals (st.top.cur + i)) := by
  induction ops with
  | nil => intro st; exact ⟨0, by simp [topReads]⟩
  | cons op ops ih =>
    intro st
    -- a top read delivers cyc vals cur and advances the cursor (or vals = [] and everything is 0)
    have key : ∀ (st' : St), st'.top = st.top.read.2 → st'.top.vals = st.top.vals ∧
        ∀ k, (List.range k).map (fun i => cyc st'.top.vals (st'.top.cur + i)) =
             (List.range k).map (fun i => cyc st.top.vals (st.top.cur + 1 + i)) := by
      intro st' h
      refine ⟨by rw [h, read_vals], fun k => ?_⟩
      apply List.map_congr_left
      intro i _
      rw [h]
      unfold Sc.read
      by_cases hv : st.top.vals = []
      · simp [hv, cyc]
      · simp only [hv, if_false]
    have topcase : ∀ (st' : St), st'.top = st.top.read.2 →
        ∃ k, st.top.read.1 :: topReads ops st' =
          (List.range k).map (fun i => cyc st.top.vals (st.top.cur + i)) := by
      intro st' h
      obtain ⟨k, hk⟩ := ih st'
      refine ⟨k + 1, ?_⟩
      rw [hk, (key st' h).2 k, List.range_succ_eq_map]
      simp only [List.map_cons, List.map_map, Nat.add_zero]
      congr 1
      · unfold Sc.read; by_cases hv : st.top.vals = [] <;> simp [hv, cyc]
      · apply List.map_congr_left; intro i _; simp [Function.comp, Nat.add_assoc, Nat.add_comm 1 i]
    cases op with
    | explicit => simpa [topReads, step] using topcase { st with top := st.top.read.2 } rfl
    | implicit =>
      cases hin : st.inner with
      | nil => simpa [topReads, step, hin] using topcase { st with top := st.top.read.2 } rfl
      | cons s rest =>
        obtain ⟨k, hk⟩ := ih { st with inner := s.read.2 :: rest }
        exact ⟨k, by simpa [topReads, step, hin] using hk⟩
    | enter args =>
      obtain ⟨k, hk⟩ := ih { st with inner := ⟨args.reverse, 0⟩ :: st.inner }
      exact ⟨k, by simpa [topReads, step] using hk⟩
    | leave =>
      obtain ⟨k, hk⟩ := ih { st with inner := st.inner.tail }
      exact ⟨k, by simpa [topReads, step] using hk⟩

#print axioms top_stream
end Inp
