namespace PyAst
inductive BinOp | add | sub | mul | div | pow | mod | fdiv | band | bor | bxor | shl | shr
  deriving DecidableEq, Repr
inductive CmpOp | eq | ne | lt | le | gt | ge | is_ | isNot | in_ | notIn
  deriving DecidableEq, Repr
inductive PyExpr
  | name (n : String) | cint (i : Int) | cstr (s : String) | cbool (b : Bool) | cnone
  | call (f : PyExpr) (args : List PyExpr) (kw : List (String × PyExpr))
  | attr (e : PyExpr) (a : String)
  | subscript (e i : PyExpr)
  | slice (lo hi st : Option PyExpr)
  | binop (op : BinOp) (l r : PyExpr)
  | boolop (isAnd : Bool) (vs : List PyExpr)
  | unary (op : String) (e : PyExpr)
  | compare (l : PyExpr) (rest : List (CmpOp × PyExpr))
  | list (xs : List PyExpr) | tuple (xs : List PyExpr) | starred (e : PyExpr)
  | ifExp (c t e : PyExpr)
  deriving Repr
inductive PyStmt
  | assign (targets : List PyExpr) (v : PyExpr)
  | augAssign (t : PyExpr) (op : BinOp) (v : PyExpr)
  | expr (e : PyExpr)
  | ifS (c : PyExpr) (t e : List PyStmt)
  | whileS (c : PyExpr) (b : List PyStmt)
  | pass
  deriving Repr
end PyAst
