/-! Probe for C12: control-flow skeleton with bookkeeping events, path summary, and its soundness
    against a nondeterministic execution relation (one counter; four counters are the same proof). -/
namespace Bal

inductive Exit | normal | brk | cont | ret
  deriving DecidableEq, Repr

inductive S
  | ev (d : Int)              -- ctx.<list>.append (+1) / .pop() (-1)
  | other                     -- anything that does not touch the bookkeeping
  | ifS (t e : List S)
  | loop (body : List S)      -- for / while
  | brk | cont | ret
  deriving Repr

-- nondeterministic execution: conditions and iteration counts are arbitrary
mutual
inductive ExecS : S → Int → Int → Exit → Prop
  | ev (d c) : ExecS (.ev d) c (c + d) .normal
  | other (c) : ExecS .other c c .normal
  | ifT {t e c c' x} : ExecL t c c' x → ExecS (.ifS t e) c c' x
  | ifE {t e c c' x} : ExecL e c c' x → ExecS (.ifS t e) c c' x
  | brk (c) : ExecS .brk c c .brk
  | cont (c) : ExecS .cont c c .cont
  | ret (c) : ExecS .ret c c .ret
  | loop {b c c' x} : ExecLoop b c c' x → ExecS (.loop b) c c' x
inductive ExecL : List S → Int → Int → Exit → Prop
  | nil (c) : ExecL [] c c .normal
  | consN {s rest c c1 c2 x} : ExecS s c c1 .normal → ExecL rest c1 c2 x → ExecL (s :: rest) c c2 x
  | consX {s rest c c1 x} : ExecS s c c1 x → x ≠ .normal → ExecL (s :: rest) c c1 x
inductive ExecLoop : List S → Int → Int → Exit → Prop
  | stop (b c) : ExecLoop b c c .normal                                          -- zero further iterations
  | iterN {b c c1 c2 x} : ExecL b c c1 .normal → ExecLoop b c1 c2 x → ExecLoop b c c2 x
  | iterC {b c c1 c2 x} : ExecL b c c1 .cont → ExecLoop b c1 c2 x → ExecLoop b c c2 x
  | iterB {b c c1} : ExecL b c c1 .brk → ExecLoop b c c1 .normal
  | iterR {b c c1} : ExecL b c c1 .ret → ExecLoop b c c1 .ret
end

-- path summary: possible (net change, exit); none = some loop body is not iteration-balanced
mutual
def pathsS : S → Option (List (Int × Exit))
  | .ev d => some [(d, .normal)]
  | .other => some [(0, .normal)]
  | .ifS t e => do let a ← pathsL t; let b ← pathsL e; pure (a ++ b)
  | .brk => some [(0, .brk)]
  | .cont => some [(0, .cont)]
  | .ret => some [(0, .ret)]
  | .loop b => do
      let ps ← pathsL b
      if ps.all (fun p => (p.2 = .normal ∨ p.2 = .cont) → p.1 = 0) then
        pure ((0, .normal) :: (ps.filter (fun p => p.2 = .brk)).map (fun p => (p.1, Exit.normal))
              ++ ps.filter (fun p => p.2 = .ret))
      else none
def pathsL : List S → Option (List (Int × Exit))
  | [] => some [(0, .normal)]
  | s :: rest => do
      let a ← pathsS s
      let b ← pathsL rest
      pure ((a.filter (fun p => p.2 ≠ .normal)) ++
            (a.filter (fun p => p.2 = .normal)).flatMap (fun p => b.map (fun q => (p.1 + q.1, q.2))))
end

def balanced (prog : List S) : Bool :=
  match pathsL prog with
  | some ps => ps.all (fun p => (p.2 = .normal ∨ p.2 = .ret) → p.1 = 0)
  | none => false

-- the `for` template of transpile.py with an `X` inside an `if` in the body
def forBuggy : List S := [.loop [.ev 1, .ifS [.brk] [], .other, .ev (-1)]]
def forRepaired : List S := [.loop [.ev 1, .ifS [.ev (-1), .brk] [], .other, .ev (-1)]]
def whileContBuggy : List S := [.other, .loop [.ev 1, .ifS [.cont] [.other], .ev (-1), .other]]
def lambdaBody : List S := [.ev 1, .ifS [.ev (-1), .ret] [], .other, .ev (-1), .ret]

example : balanced forBuggy = false := by decide
example : balanced forRepaired = true := by decide
example : balanced whileContBuggy = false := by decide
example : balanced lambdaBody = true := by decide

def loopPaths (ps : List (Int × Exit)) : List (Int × Exit) :=
  (0, Exit.normal) :: (ps.filter (fun p => p.2 = .brk)).map (fun p => (p.1, Exit.normal))
    ++ ps.filter (fun p => p.2 = .ret)

def iterOK (ps : List (Int × Exit)) : Bool := ps.all (fun p => (p.2 = .normal ∨ p.2 = .cont) → p.1 = 0)

theorem pathsS_loop (b : List S) (r : List (Int × Exit)) (h : pathsS (.loop b) = some r) :
    ∃ ps, pathsL b = some ps ∧ iterOK ps = true ∧ r = loopPaths ps := by
  simp only [pathsS, bind, Option.bind] at h
  cases hb : pathsL b with
  | none => rw [hb] at h; simp at h
  | some ps =>
    rw [hb] at h
    simp only at h
    split at h
    · rename_i hk
      simp only [pure, Option.some.injEq] at h
      exact ⟨ps, rfl, hk, h.symm⟩
    · simp at h

theorem pathsL_cons (s : S) (rest : List S) (r : List (Int × Exit)) (h : pathsL (s :: rest) = some r) :
    ∃ a b, pathsS s = some a ∧ pathsL rest = some b ∧
      r = (a.filter (fun p => p.2 ≠ .normal)) ++
          (a.filter (fun p => p.2 = .normal)).flatMap (fun p => b.map (fun q => (p.1 + q.1, q.2))) := by
  simp only [pathsL, bind, Option.bind] at h
  cases ha : pathsS s with
  | none => rw [ha] at h; simp at h
  | some a =>
    rw [ha] at h
    simp only at h
    cases hb : pathsL rest with
    | none => rw [hb] at h; simp at h
    | some b =>
      rw [hb] at h
      simp only [pure, Option.some.injEq] at h
      exact ⟨a, b, rfl, rfl, h.symm⟩

theorem pathsS_if (t e : List S) (r : List (Int × Exit)) (h : pathsS (.ifS t e) = some r) :
    ∃ a b, pathsL t = some a ∧ pathsL e = some b ∧ r = a ++ b := by
  simp only [pathsS, bind, Option.bind] at h
  cases ha : pathsL t with
  | none => rw [ha] at h; simp at h
  | some a =>
    rw [ha] at h
    simp only at h
    cases hb : pathsL e with
    | none => rw [hb] at h; simp at h
    | some b =>
      rw [hb] at h
      simp only [pure, Option.some.injEq] at h
      exact ⟨a, b, rfl, rfl, h.symm⟩

-- soundness: every execution's (net change, exit) is one of the summarised paths
mutual
theorem soundS : ∀ {s c c' x}, ExecS s c c' x → ∀ r, pathsS s = some r → (c' - c, x) ∈ r
  | _, _, _, _, .ev d c, r, h => by simp [pathsS] at h; subst h; simp; omega
  | _, _, _, _, .other c, r, h => by simp [pathsS] at h; subst h; simp
  | _, _, _, _, .brk c, r, h => by simp [pathsS] at h; subst h; simp
  | _, _, _, _, .cont c, r, h => by simp [pathsS] at h; subst h; simp
  | _, _, _, _, .ret c, r, h => by simp [pathsS] at h; subst h; simp
  | _, _, _, _, .ifT (t := t) (e := e) ht, r, h => by
      obtain ⟨a, b, ha, hb, rfl⟩ := pathsS_if t e r h
      exact List.mem_append_left _ (soundL ht a ha)
  | _, _, _, _, .ifE (t := t) (e := e) he, r, h => by
      obtain ⟨a, b, ha, hb, rfl⟩ := pathsS_if t e r h
      exact List.mem_append_right _ (soundL he b hb)
  | _, _, _, _, .loop (b := b) hl, r, h => by
      obtain ⟨ps, hps, hok, rfl⟩ := pathsS_loop b r h
      exact soundLoop hl ps hps hok
theorem soundL : ∀ {l c c' x}, ExecL l c c' x → ∀ r, pathsL l = some r → (c' - c, x) ∈ r
  | _, _, _, _, .nil c, r, h => by simp [pathsL] at h; subst h; simp
  | _, _, _, _, .consN (s := s) (rest := rest) (c := c) (c1 := c1) (c2 := c2) (x := x) hs hr, r, h => by
      obtain ⟨a, b, ha, hb, rfl⟩ := pathsL_cons s rest r h
      have h1 := soundS hs a ha
      have h2 := soundL hr b hb
      apply List.mem_append_right
      simp only [List.mem_flatMap, List.mem_filter, List.mem_map, decide_eq_true_eq]
      exact ⟨(c1 - c, .normal), ⟨h1, rfl⟩, (c2 - c1, x), h2, by simp; omega⟩
  | _, _, _, _, .consX (s := s) (rest := rest) hs hx, r, h => by
      obtain ⟨a, b, ha, hb, rfl⟩ := pathsL_cons s rest r h
      have h1 := soundS hs a ha
      apply List.mem_append_left
      simp only [List.mem_filter, decide_eq_true_eq]
      exact ⟨h1, by simpa using hx⟩
theorem soundLoop : ∀ {b c c' x}, ExecLoop b c c' x → ∀ ps, pathsL b = some ps → iterOK ps = true →
    (c' - c, x) ∈ loopPaths ps
  | _, _, _, _, .stop b c, ps, _, _ => by simp [loopPaths]
  | _, _, _, _, .iterN (c := c) (c1 := c1) (c2 := c2) hb hl, ps, hps, hok => by
      have h1 := soundL hb ps hps
      have hz : c1 - c = 0 := by
        have := List.all_eq_true.mp hok _ h1
        simpa using this
      have := soundLoop hl ps hps hok
      have e : c2 - c = c2 - c1 := by omega
      rw [e]; exact this
  | _, _, _, _, .iterC (c := c) (c1 := c1) (c2 := c2) hb hl, ps, hps, hok => by
      have h1 := soundL hb ps hps
      have hz : c1 - c = 0 := by
        have := List.all_eq_true.mp hok _ h1
        simpa using this
      have := soundLoop hl ps hps hok
      have e : c2 - c = c2 - c1 := by omega
      rw [e]; exact this
  | _, _, _, _, .iterB hb, ps, hps, _ => by
      have h1 := soundL hb ps hps
      unfold loopPaths
      apply List.mem_cons_of_mem
      apply List.mem_append_left
      exact List.mem_map.mpr ⟨_, List.mem_filter.mpr ⟨h1, by simp⟩, rfl⟩
  | _, _, _, _, .iterR hb, ps, hps, _ => by
      have h1 := soundL hb ps hps
      unfold loopPaths
      apply List.mem_cons_of_mem
      apply List.mem_append_right
      exact List.mem_filter.mpr ⟨h1, by simp⟩
end

/-- C12 on the skeleton: a program the summary calls balanced leaves the counter where it was
    on every normal or returning execution — whatever the conditions and iteration counts. -/
theorem balanced_sound (prog : List S) (hb : balanced prog = true) (c c' : Int) (x : Exit)
    (hx : x = .normal ∨ x = .ret) (h : ExecL prog c c' x) : c' = c := by
  unfold balanced at hb
  cases hp : pathsL prog with
  | none => rw [hp] at hb; simp at hb
  | some ps =>
    rw [hp] at hb
    have hm := soundL h ps hp
    have := List.all_eq_true.mp hb _ hm
    simp at this
    rcases this with ⟨h1, h2⟩ | h3
    · rcases hx with rfl | rfl
      · exact absurd rfl h1
      · exact absurd rfl h2
    · omega

#print axioms balanced_sound
end Bal
