import sys, random, subprocess, os
sys.path.insert(0,'/tmp/vs')
sys.setrecursionlimit(10000)
from vyxal.lexer import tokenise, Token, TokenType
from vyxal.parse import parse
from vyxal import structure as S
random.seed(int(sys.argv[1]) if len(sys.argv)>1 else 1)
def strS(s): return "<"+" ".join(str(ord(c)) for c in s)+">"
PN={None:"None",S.IfStatement:"If",S.ForLoop:"For",S.WhileLoop:"While",S.FunctionCall:"FnCall",S.Lambda:"Lambda",S.LambdaMap:"Map",S.LambdaFilter:"Filter",S.LambdaSort:"Sort",S.ListLiteral:"List",S.MonadicModifier:"Mon",S.DyadicModifier:"Dy",S.TriadicModifier:"Tri"}
def showL(l): return "["+" ".join(showS(x) for x in l)+"]"
def showS(s):
    t=type(s)
    if t is S.GenericStatement:
        tok=s.branches[0][0]; return f"(G {tok.name.value} {strS(tok.value)})"
    if t is S.BreakStatement: return f"(X {PN[s.parent_structure]})"
    if t is S.RecurseStatement: return f"(x {PN[s.parent_structure]})"
    if t is S.IfStatement: return "(If "+" ".join(showL(b) for b in s.branches)+")"
    if t is S.ListLiteral: return "(List "+" ".join(showL(b) for b in s.items)+")"
    if t is S.ForLoop: return "(For ["+" ".join(strS(n) for n in s.names)+"] "+showL(s.body)+")"
    if t is S.WhileLoop:
        if s.condition and isinstance(s.condition[0],Token): return "(While default "+showL(s.body)+")"
        return "(While "+showL(s.condition)+" "+showL(s.body)+")"
    if t is S.FunctionCall: return f"(Call {strS(s.name)})"
    if t is S.FunctionDef: return "(Def "+strS(s.name)+" ["+" ".join(strS(p) for p in s.parameters)+"] "+showL(s.body)+")"
    if t is S.Lambda: return f"(Lam {s.arity} "+showL(s.body)+")"
    if isinstance(s,S.LambdaOp): return f"(LamOp {PN[t]} "+showL(s.lam.body)+")"
    if t is S.MonadicModifier: return f"(Mon {strS(s.modifier)} {showS(s.function_A)})"
    if t is S.DyadicModifier: return f"(Dy {strS(s.modifier)} {showS(s.function_A)} {showS(s.function_B)})"
    if t is S.TriadicModifier: return f"(Tri {strS(s.modifier)} {showS(s.function_A)} {showS(s.function_B)} {showS(s.function_C)})"
    raise Exception(t)
alpha=list("[](){}λƛ'µ⟨⟩@;|Xxv⁽&₌‡₍≬ :")+["1","12","+","a","b","`s`","\\|","\\X","‛ab","→a","←","»X»","«|«","⁺v","k1","∆c","#c\n","*","2"]
N=int(sys.argv[2]) if len(sys.argv)>2 else 20000
progs=[]
for _ in range(N):
    n=random.randint(0,10)
    progs.append("".join(random.choice(alpha) for _ in range(n)))
lines=[];exp=[]
for p in progs:
    toks=tokenise(p)
    lines.append(" ".join(f"{t.name.value}:{','.join(str(ord(c)) for c in t.value)}" for t in toks))
    try: exp.append(showL(parse(toks)))
    except IndexError: exp.append("ERR Vy.Err.index")
    except ValueError: exp.append("ERR Vy.Err.arity")
    except AssertionError: exp.append("ERR Vy.Err.assertion")
env=dict(os.environ,LEAN_PATH="/tmp/lp4")
out=subprocess.run(["lean","--run","/tmp/lp4/Main.lean"],input="\n".join(lines)+"\n",capture_output=True,text=True,env=env).stdout.split("\n")
out=[o[2:] for o in out if o.startswith("R ")]
bad=0
from collections import Counter
c=Counter()
for p,l,e,o in zip(progs,lines,exp,out):
    c[e.split(' ')[0][:4]]+=1
    if e!=o:
        bad+=1
        if bad<=8: print(repr(p)); print('  impl ',e); print('  model',o)
print(N,'bad',bad, c.most_common(5))
