import Lexer
open Vy
def kn : TokKind → String
  | .string => "string" | .number => "number" | .character => "character" | .general => "general"
  | .cnum => "compressed_number" | .cstr => "compressed_string" | .vget => "variable_get"
  | .vset => "variable_set" | .cpnum => "codepage_number"
partial def loop (h : IO.FS.Stream) : IO Unit := do
  let line ← h.getLine
  if line.isEmpty then return ()
  let l := (line.dropRightWhile (· == '\n'))
  let cps := if l.isEmpty then [] else (l.splitOn " ").filterMap String.toNat?
  let toks := tokenise cps
  IO.println ("R " ++ " ".intercalate (toks.map (fun t => kn t.kind ++ ":" ++ ",".intercalate (t.value.map toString))))
  loop h
def main : IO Unit := do loop (← IO.getStdin)
