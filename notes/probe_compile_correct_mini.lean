/-! Probe for C01: a scaled-down compiler-correctness proof with a shared fuel discipline. -/
namespace CC

inductive V : Type
  | push (n : Int) | add | dup | ctxn
  | ifS (t e : List V) | forS (b : List V) | whileS (c b : List V)
abbrev VL := List V

inductive P : Type
  | appendConst (n : Int) | elAdd | elDup | elCtx
  | popCond | ifCond (t e : List P) | forPop (b : List P) | whileCond (b : List P)
  | ctxPushVar | ctxPushCond | ctxPop
abbrev PL := List P

structure RSt where
  stack : List Int
  cv : List Int
  deriving Repr, DecidableEq

structure PSt where
  stack : List Int
  cv : List Int
  cond : Int
  lvs : List Int
  deriving Repr, DecidableEq

def PSt.proj (s : PSt) : RSt := ⟨s.stack, s.cv⟩

/-- pop with the "implicit input is 0" rule -/
def pop1 (st : List Int) : Int × List Int := match st with | [] => (0, []) | x :: r => (x, r)

def range1 (x : Int) : List Int := (List.range x.toNat).map (fun (i : Nat) => (i : Int) + 1)

-- element semantics shared by both sides
def elAdd (st : List Int) : List Int := let (a, r) := pop1 st; let (b, r') := pop1 r; (b + a) :: r'
def elDup (st : List Int) : List Int := let (a, r) := pop1 st; a :: a :: r

/-! reference semantics -/
mutual
def refS : Nat → V → RSt → Option RSt
  | _, .push n, σ => some { σ with stack := n :: σ.stack }
  | _, .add, σ => some { σ with stack := elAdd σ.stack }
  | _, .dup, σ => some { σ with stack := elDup σ.stack }
  | _, .ctxn, σ => some { σ with stack := σ.cv.headD 0 :: σ.stack }
  | n, .ifS t e, σ =>
      let (x, r) := pop1 σ.stack
      if x ≠ 0 then refL n t { σ with stack := r } else refL n e { σ with stack := r }
  | n, .forS b, σ =>
      let (x, r) := pop1 σ.stack
      refFor n b (range1 x) { σ with stack := r }
  | n, .whileS c b, σ =>
      match refL n c σ with
      | none => none
      | some σ1 => let (x, r) := pop1 σ1.stack; refWhile n c b x { σ1 with stack := r }
def refL : Nat → VL → RSt → Option RSt
  | _, [], σ => some σ
  | n, h :: t, σ => match refS n h σ with | none => none | some σ' => refL n t σ'
def refFor : Nat → VL → List Int → RSt → Option RSt
  | _, _, [], σ => some σ
  | 0, _, _ :: _, _ => none
  | n + 1, b, i :: is, σ =>
      match refL n b { σ with cv := i :: σ.cv } with
      | none => none
      | some σ1 => refFor n b is { σ1 with cv := σ1.cv.tail }
def refWhile : Nat → VL → VL → Int → RSt → Option RSt
  | 0, _, _, x, σ => if x = 0 then some σ else none
  | n + 1, c, b, x, σ =>
      if x = 0 then some σ else
      match refL n b { σ with cv := x :: σ.cv } with
      | none => none
      | some σ1 =>
        match refL n c { σ1 with cv := σ1.cv.tail } with
        | none => none
        | some σ2 => let (y, r) := pop1 σ2.stack; refWhile n c b y { σ2 with stack := r }
end

/-! semantics of the emitted Python fragment -/
mutual
def pyS : Nat → P → PSt → Option PSt
  | _, .appendConst n, s => some { s with stack := n :: s.stack }
  | _, .elAdd, s => some { s with stack := elAdd s.stack }
  | _, .elDup, s => some { s with stack := elDup s.stack }
  | _, .elCtx, s => some { s with stack := s.cv.headD 0 :: s.stack }
  | _, .popCond, s => let (x, r) := pop1 s.stack; some { s with stack := r, cond := x }
  | n, .ifCond t e, s => if s.cond ≠ 0 then pyL n t s else pyL n e s
  | n, .forPop b, s => let (x, r) := pop1 s.stack; pyFor n b (range1 x) { s with stack := r }
  | n, .whileCond b, s => pyWhile n b s
  | _, .ctxPushVar, s => some { s with cv := s.lvs.headD 0 :: s.cv }
  | _, .ctxPushCond, s => some { s with cv := s.cond :: s.cv }
  | _, .ctxPop, s => some { s with cv := s.cv.tail }
def pyL : Nat → PL → PSt → Option PSt
  | _, [], s => some s
  | n, h :: t, s => match pyS n h s with | none => none | some s' => pyL n t s'
def pyFor : Nat → PL → List Int → PSt → Option PSt
  | _, _, [], s => some s
  | 0, _, _ :: _, _ => none
  | n + 1, b, i :: is, s =>
      match pyL n b { s with lvs := i :: s.lvs } with
      | none => none
      | some s1 => pyFor n b is { s1 with lvs := s1.lvs.tail }
def pyWhile : Nat → PL → PSt → Option PSt
  | 0, _, s => if s.cond = 0 then some s else none
  | n + 1, b, s => if s.cond = 0 then some s else
      match pyL n b s with
      | none => none
      | some s1 => pyWhile n b s1
end

/-! the transpiler -/
mutual
def trS : V → PL
  | .push n => [.appendConst n]
  | .add => [.elAdd]
  | .dup => [.elDup]
  | .ctxn => [.elCtx]
  | .ifS t e => [.popCond, .ifCond (trL t) (trL e)]
  | .forS b => [.forPop (.ctxPushVar :: trL b ++ [.ctxPop])]
  | .whileS c b =>
      trL c ++ [.popCond, .whileCond (.ctxPushCond :: trL b ++ [.ctxPop] ++ (trL c ++ [.popCond]))]
def trL : VL → PL
  | [] => []
  | h :: t => trS h ++ trL t
end


/-! correctness -/

theorem pyL_app (n : Nat) (a b : PL) (s : PSt) :
    pyL n (a ++ b) s = (pyL n a s).bind (pyL n b) := by
  induction a generalizing s with
  | nil => simp [pyL]
  | cons h t ih =>
    simp only [List.cons_append, pyL]
    cases pyS n h s with
    | none => simp
    | some s' => simpa using ih s'
  
def Sim (lv : List Int) : Option PSt → Option RSt → Prop
  | none, none => True
  | some s', some σ' => s'.proj = σ' ∧ s'.lvs = lv
  | _, _ => False

theorem Sim.bind {lv} {o : Option PSt} {r : Option RSt} {f : PSt → Option PSt} {g : RSt → Option RSt}
    (h : Sim lv o r) (hf : ∀ s, s.lvs = lv → Sim lv (f s) (g s.proj)) : Sim lv (o.bind f) (r.bind g) := by
  cases o <;> cases r <;> simp [Sim] at h ⊢
  · obtain ⟨h1, h2⟩ := h
    subst h1
    exact hf _ h2

/-- body of the emitted for loop -/
def forBody (b : VL) : PL := .ctxPushVar :: trL b ++ [.ctxPop]

theorem forBody_eq (n : Nat) (b : VL) (s0 : PSt) :
    pyL n (forBody b) s0 =
      (pyL n (trL b) { s0 with cv := s0.lvs.headD 0 :: s0.cv }).map (fun s1 => { s1 with cv := s1.cv.tail }) := by
  unfold forBody
  show pyL n (P.ctxPushVar :: (trL b ++ [P.ctxPop])) s0 = _
  rw [pyL.eq_def]
  simp only [pyS]
  rw [pyL_app]
  cases pyL n (trL b) { s0 with cv := s0.lvs.headD 0 :: s0.cv } with
  | none => simp
  | some s1 => simp [pyL, pyS]

theorem for_sim (b : VL) (hb : ∀ m s, Sim s.lvs (pyL m (trL b) s) (refL m b s.proj)) :
    ∀ (n : Nat) (items : List Int) (s : PSt),
      Sim s.lvs (pyFor n (forBody b) items s) (refFor n b items s.proj) := by
  intro n
  induction n with
  | zero => intro items s; cases items <;> simp [pyFor, refFor, Sim, PSt.proj]
  | succ n ih =>
    intro items s
    cases items with
    | nil => simp [pyFor, refFor, Sim, PSt.proj]
    | cons i is =>
      simp only [pyFor, refFor]
      rw [forBody_eq]
      have hb' := hb n { s with lvs := i :: s.lvs, cv := i :: s.cv }
      simp only [List.headD_cons, PSt.proj] at hb' ⊢
      cases h1 : pyL n (trL b) { stack := s.stack, cv := i :: s.cv, cond := s.cond, lvs := i :: s.lvs } with
      | none =>
        rw [h1] at hb'
        cases h2 : refL n b { stack := s.stack, cv := i :: s.cv } with
        | none => simp [Sim]
        | some σ => rw [h2] at hb'; simp [Sim] at hb'
      | some s1 =>
        rw [h1] at hb'
        cases h2 : refL n b { stack := s.stack, cv := i :: s.cv } with
        | none => rw [h2] at hb'; simp [Sim] at hb'
        | some σ =>
          rw [h2] at hb'
          simp only [Sim] at hb'
          obtain ⟨hp, hl⟩ := hb'
          simp only [Option.map_some]
          have := ih is { s1 with cv := s1.cv.tail, lvs := s1.lvs.tail }
          simp only [PSt.proj] at this hp
          rw [hl] at this ⊢
          simp only [List.tail_cons] at this
          rw [← hp]
          simpa [hl] using this

def whileBody (c b : VL) : PL := .ctxPushCond :: trL b ++ [.ctxPop] ++ (trL c ++ [.popCond])

theorem Sim.elim {lv} {o : Option PSt} {r : Option RSt} (h : Sim lv o r) :
    (o = none ∧ r = none) ∨ ∃ s' , o = some s' ∧ r = some s'.proj ∧ s'.lvs = lv := by
  cases o <;> cases r <;> simp [Sim] at h ⊢
  exact ⟨h.1.symm, h.2⟩

theorem whileBody_eq (n : Nat) (c b : VL) (s0 : PSt) :
    pyL n (whileBody c b) s0 =
      ((pyL n (trL b) { s0 with cv := s0.cond :: s0.cv }).bind
        (fun s1 => pyL n (trL c) { s1 with cv := s1.cv.tail })).map
        (fun s2 => { s2 with stack := (pop1 s2.stack).2, cond := (pop1 s2.stack).1 }) := by
  unfold whileBody
  show pyL n (P.ctxPushCond :: (trL b ++ [P.ctxPop] ++ (trL c ++ [P.popCond]))) s0 = _
  rw [pyL.eq_def]
  simp only [pyS]
  rw [pyL_app, pyL_app]
  cases pyL n (trL b) { s0 with cv := s0.cond :: s0.cv } with
  | none => simp
  | some s1 =>
    simp only [Option.bind_some, pyL, pyS]
    rw [pyL_app]
    cases pyL n (trL c) { s1 with cv := s1.cv.tail } with
    | none => simp
    | some s2 => simp [pyL, pyS]

theorem while_sim (c b : VL)
    (hc : ∀ m s, Sim s.lvs (pyL m (trL c) s) (refL m c s.proj))
    (hb : ∀ m s, Sim s.lvs (pyL m (trL b) s) (refL m b s.proj)) :
    ∀ (n : Nat) (s : PSt), Sim s.lvs (pyWhile n (whileBody c b) s) (refWhile n c b s.cond s.proj) := by
  intro n
  induction n with
  | zero => intro s; by_cases h : s.cond = 0 <;> simp [pyWhile, refWhile, h, Sim]
  | succ n ih =>
    intro s
    by_cases h0 : s.cond = 0
    · simp [pyWhile, refWhile, h0, Sim]
    · simp only [pyWhile, refWhile, h0, if_false]
      rw [whileBody_eq]
      rcases (hb n { s with cv := s.cond :: s.cv }).elim with ⟨e1, e2⟩ | ⟨s1, e1, e2, e3⟩
      · simp only [PSt.proj] at e2; simp [e1, e2, PSt.proj, Sim]
      · simp only [PSt.proj] at e2
        simp only [e1, PSt.proj, e2, Option.bind_some]
        rcases (hc n { s1 with cv := s1.cv.tail }).elim with ⟨f1, f2⟩ | ⟨s2, f1, f2, f3⟩
        · simp only [PSt.proj] at f2; simp [f1, f2, Sim]
        · simp only [PSt.proj] at f2
          simp only [f1, f2, Option.map_some]
          have := ih { s2 with stack := (pop1 s2.stack).2, cond := (pop1 s2.stack).1 }
          simp only [PSt.proj] at this
          have hl : s2.lvs = s.lvs := by
            have h1 : s2.lvs = s1.lvs := by simpa using f3
            have h2 : s1.lvs = s.lvs := by simpa using e3
            exact h1.trans h2
          rw [hl] at this ⊢
          exact this

mutual
theorem simS : ∀ (v : V) (n : Nat) (s : PSt), Sim s.lvs (pyL n (trS v) s) (refS n v s.proj)
  | .push k, n, s => by simp [trS, pyL, pyS, refS, Sim, PSt.proj]
  | .add, n, s => by simp [trS, pyL, pyS, refS, Sim, PSt.proj]
  | .dup, n, s => by simp [trS, pyL, pyS, refS, Sim, PSt.proj]
  | .ctxn, n, s => by simp [trS, pyL, pyS, refS, Sim, PSt.proj]
  | .ifS t e, n, s => by
      have ht := simL t n { s with stack := (pop1 s.stack).2, cond := (pop1 s.stack).1 }
      have he := simL e n { s with stack := (pop1 s.stack).2, cond := (pop1 s.stack).1 }
      simp only [trS, pyL, pyS, refS, PSt.proj] at ht he ⊢
      by_cases hx : (pop1 s.stack).1 = 0
      · simp only [hx, ne_eq, not_true_eq_false, if_false] at he ⊢
        cases h : pyL n (trL e) _ <;> simp_all
      · simp only [hx, ne_eq, not_false_eq_true, if_true] at ht ⊢
        cases h : pyL n (trL t) _ <;> simp_all
  | .forS b, n, s => by
      have := for_sim b (fun m s => simL b m s) n (range1 (pop1 s.stack).1) { s with stack := (pop1 s.stack).2 }
      simp only [trS, pyL, pyS, refS, PSt.proj, forBody] at this ⊢
      cases h : pyFor n _ _ _ <;> simp_all
  | .whileS c b, n, s => by
      simp only [trS, refS]
      rw [pyL_app]
      rcases (simL c n s).elim with ⟨e1, e2⟩ | ⟨s1, e1, e2, e3⟩
      · simp [e1, e2, Sim]
      · simp only [e1, e2, Option.bind_some, pyL, pyS]
        have := while_sim c b (fun m s => simL c m s) (fun m s => simL b m s) n
          { s1 with stack := (pop1 s1.stack).2, cond := (pop1 s1.stack).1 }
        simp only [PSt.proj, whileBody] at this ⊢
        rw [e3] at this
        cases h : pyWhile n _ _ <;> simp_all
theorem simL : ∀ (l : VL) (n : Nat) (s : PSt), Sim s.lvs (pyL n (trL l) s) (refL n l s.proj)
  | [], n, s => by simp [trL, pyL, refL, Sim]
  | h :: t, n, s => by
      simp only [trL, refL]
      rw [pyL_app]
      rcases (simS h n s).elim with ⟨e1, e2⟩ | ⟨s1, e1, e2, e3⟩
      · simp [e1, e2, Sim]
      · simp only [e1, e2, Option.bind_some]
        have := simL t n s1
        rw [e3] at this
        exact this
end

/-- the scaled-down C01: same fuel on both sides, observable state equal, for every program and every start state -/
theorem compile_correct (n : Nat) (prog : VL) (s : PSt) :
    (pyL n (trL prog) s).map PSt.proj = refL n prog s.proj := by
  rcases (simL prog n s).elim with ⟨e1, e2⟩ | ⟨s1, e1, e2, _⟩ <;> simp [e1, e2]

#print axioms compile_correct
end CC
