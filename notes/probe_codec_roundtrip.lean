/-! Probe for C15: positional codecs of helpers.py (to_base_digits / from_base_digits and the alphabet forms). -/
namespace Codec

/-- `helpers.to_base_digits`: most significant digit first -/
def toDigits (b : Nat) (n : Nat) : List Nat :=
  if h : b < 2 then [n] else
  if n < b then [n] else toDigits b (n / b) ++ [n % b]
termination_by n
decreasing_by
  have : 2 ≤ b := by omega
  exact Nat.div_lt_self (by omega) (by omega)

/-- `helpers.from_base_digits`: Horner -/
def fromDigits (b : Nat) (ds : List Nat) : Nat := ds.foldl (fun acc d => b * acc + d) 0

theorem fromDigits_append (b : Nat) (xs : List Nat) (d : Nat) :
    fromDigits b (xs ++ [d]) = b * fromDigits b xs + d := by
  simp [fromDigits, List.foldl_append]

theorem digits_roundtrip (b : Nat) (hb : 2 ≤ b) (n : Nat) : fromDigits b (toDigits b n) = n := by
  induction n using Nat.strongRecOn with
  | _ n ih =>
    rw [toDigits]
    have h2 : ¬ b < 2 := by omega
    simp only [h2, dite_false]
    by_cases hn : n < b
    · simp [hn, fromDigits]
    · simp only [hn, if_false]
      rw [fromDigits_append, ih (n / b) (Nat.div_lt_self (by omega) (by omega))]
      exact Nat.div_add_mod n b

theorem digits_lt (b : Nat) (hb : 2 ≤ b) (n : Nat) : ∀ d ∈ toDigits b n, d < b := by
  induction n using Nat.strongRecOn with
  | _ n ih =>
    rw [toDigits]
    have h2 : ¬ b < 2 := by omega
    simp only [h2, dite_false]
    by_cases hn : n < b
    · simp [hn]
    · simp only [hn, if_false]
      intro d hd
      rcases List.mem_append.mp hd with hd | hd
      · exact ih (n / b) (Nat.div_lt_self (by omega) (by omega)) d hd
      · simp at hd; subst hd; exact Nat.mod_lt n (by omega)

/-- alphabet forms: `to_base_alphabet` / `from_base_alphabet` (find = index of first occurrence) -/
def toAlpha (α : List Nat) (n : Nat) : List Nat := (toDigits α.length n).map (fun i => α[i]?.getD 0)
def fromAlpha (α : List Nat) (s : List Nat) : Nat := s.foldl (fun acc c => α.length * acc + α.idxOf c) 0

theorem fromAlpha_eq (α : List Nat) (s : List Nat) : fromAlpha α s = fromDigits α.length (s.map α.idxOf) := by
  simp [fromAlpha, fromDigits, List.foldl_map]

theorem idxOf_getD (α : List Nat) (hn : α.Nodup) (i : Nat) (hi : i < α.length) :
    α.idxOf (α[i]?.getD 0) = i := by
  have : α[i]? = some α[i] := List.getElem?_eq_getElem hi
  rw [this, Option.getD_some]
  exact hn.idxOf_getElem i hi

/-- compress-then-decompress of a number over any duplicate-free alphabet of at least two symbols -/
theorem alphabet_roundtrip (α : List Nat) (hn : α.Nodup) (h2 : 2 ≤ α.length) (n : Nat) :
    fromAlpha α (toAlpha α n) = n := by
  rw [fromAlpha_eq, toAlpha, List.map_map]
  have : (toDigits α.length n).map (α.idxOf ∘ fun i => α[i]?.getD 0) = toDigits α.length n := by
    conv => rhs; rw [← List.map_id (toDigits α.length n)]
    apply List.map_congr_left
    intro i hi
    simp only [Function.comp, id]
    exact idxOf_getD α hn i (digits_lt α.length h2 n i hi)
  rw [this, digits_roundtrip α.length h2 n]

#print axioms digits_roundtrip
#print axioms alphabet_roundtrip
end Codec
