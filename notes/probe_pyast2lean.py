import ast, sys
sys.path.insert(0,'/repo')
def lstr(s): 
    return '"' + "".join(('\\"' if c=='"' else '\\\\' if c=='\\' else '\\n' if c=='\n' else '\\t' if c=='\t' else '\\r' if c=='\r' else c if 32<=ord(c)<0x110000 and c.isprintable() else '\\u%04x'%ord(c)) for c in s) + '"'
def L(xs): return "[" + ", ".join(xs) + "]"
OPS={ast.Add:'add',ast.Sub:'sub',ast.Mult:'mul',ast.Div:'div',ast.Pow:'pow',ast.Mod:'mod',ast.FloorDiv:'fdiv',ast.BitAnd:'band',ast.BitOr:'bor',ast.BitXor:'bxor',ast.LShift:'shl',ast.RShift:'shr'}
CMP={ast.Eq:'eq',ast.NotEq:'ne',ast.Lt:'lt',ast.LtE:'le',ast.Gt:'gt',ast.GtE:'ge',ast.Is:'is_',ast.IsNot:'isNot',ast.In:'in_',ast.NotIn:'notIn'}
def E(e):
    t=type(e)
    if t is ast.Name: return f'(.name {lstr(e.id)})'
    if t is ast.Constant:
        v=e.value
        if isinstance(v,bool): return f'(.cbool {"true" if v else "false"})'
        if isinstance(v,int): return f'(.cint ({v}))'
        if isinstance(v,str): return f'(.cstr {lstr(v)})'
        if v is None: return '.cnone'
        raise NotImplementedError(repr(v))
    if t is ast.Call:
        return f'(.call {E(e.func)} {L([E(a) for a in e.args])} {L(["(%s, %s)"%(lstr(k.arg or "**"),E(k.value)) for k in e.keywords])})'
    if t is ast.Attribute: return f'(.attr {E(e.value)} {lstr(e.attr)})'
    if t is ast.Subscript: return f'(.subscript {E(e.value)} {E(e.slice)})'
    if t is ast.Slice:
        o=lambda x: f'(some {E(x)})' if x is not None else 'none'
        return f'(.slice {o(e.lower)} {o(e.upper)} {o(e.step)})'
    if t is ast.BinOp: return f'(.binop .{OPS[type(e.op)]} {E(e.left)} {E(e.right)})'
    if t is ast.BoolOp: return f'(.boolop {"true" if isinstance(e.op,ast.And) else "false"} {L([E(v) for v in e.values])})'
    if t is ast.UnaryOp: return f'(.unary {lstr(type(e.op).__name__)} {E(e.operand)})'
    if t is ast.Compare: return f'(.compare {E(e.left)} {L(["(.%s, %s)"%(CMP[type(o)],E(c)) for o,c in zip(e.ops,e.comparators)])})'
    if t is ast.List: return f'(.list {L([E(x) for x in e.elts])})'
    if t is ast.Tuple: return f'(.tuple {L([E(x) for x in e.elts])})'
    if t is ast.Starred: return f'(.starred {E(e.value)})'
    if t is ast.IfExp: return f'(.ifExp {E(e.test)} {E(e.body)} {E(e.orelse)})'
    raise NotImplementedError(t.__name__)
def S(s):
    t=type(s)
    if t is ast.Assign: return f'(.assign {L([E(x) for x in s.targets])} {E(s.value)})'
    if t is ast.AugAssign: return f'(.augAssign {E(s.target)} .{OPS[type(s.op)]} {E(s.value)})'
    if t is ast.Expr: return f'(.expr {E(s.value)})'
    if t is ast.If: return f'(.ifS {E(s.test)} {L([S(x) for x in s.body])} {L([S(x) for x in s.orelse])})'
    if t is ast.While: return f'(.whileS {E(s.test)} {L([S(x) for x in s.body])})'
    if t is ast.Pass: return '.pass'
    raise NotImplementedError(t.__name__)
from vyxal.elements import elements, modifiers
out=["import PyAst","open PyAst","namespace Gen","structure Entry where","  key : List Nat","  arity : Int","  body : Option (List PyStmt)","","def elements : List Entry := ["]
rows=[]
for k,(code,ar) in elements.items():
    try: body="some "+L([S(x) for x in ast.parse(code).body])
    except SyntaxError: body="none"
    rows.append(f"  ⟨{[ord(c) for c in k]}, {ar}, {body}⟩")
out.append(",\n".join(rows)+"]")
out.append("end Gen")
open('Gen.lean','w').write("\n".join(out)+"\n")
print(len(rows), sum(len(r) for r in rows))
