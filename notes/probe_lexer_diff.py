import sys, random, subprocess, os
sys.path.insert(0,'/repo')
from vyxal.lexer import tokenise
random.seed(int(sys.argv[1])); N=int(sys.argv[2])
alpha=list("`\\»«‛→←#k∆øÞ¨⁺|01259.°ab_Z \n[]λ;+\"'X")
progs=["".join(random.choice(alpha) for _ in range(random.randint(0,12))) for _ in range(N)]
# exhaustive short strings over a small alphabet
import itertools
small=list("`\\0.°1‛k|#\n→a»")
for L in range(0,4):
    for t in itertools.product(small,repeat=L): progs.append("".join(t))
exp=[" ".join(f"{t.name.value}:{','.join(str(ord(c)) for c in t.value)}" for t in tokenise(p)) for p in progs]
inp="\n".join(" ".join(str(ord(c)) for c in p) for p in progs)+"\n"
out=subprocess.run(["lean","--run","/tmp/lp8/LMain.lean"],input=inp,capture_output=True,text=True,env=dict(os.environ,LEAN_PATH="/tmp/lp8")).stdout.split("\n")
out=[o[2:] for o in out if o.startswith("R ")]
bad=0
for p,e,o in zip(progs,exp,out):
    if e!=o:
        bad+=1
        if bad<6: print(repr(p)); print(' impl ',e); print(' model',o)
print(len(progs),len(out),'bad',bad)
