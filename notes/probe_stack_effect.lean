import Gen
open PyAst

/-- does an expression mention the name `stack` at all? -/
partial def mentionsStackP : PyExpr → Bool := fun _ => false  -- placeholder to keep file simple

mutual
def mentions : PyExpr → Bool
  | .name n => n == "stack"
  | .cint _ | .cstr _ | .cbool _ | .cnone => false
  | .call f args kw => mentions f || mentionsL args || mentionsKw kw
  | .attr e _ => mentions e
  | .subscript e i => mentions e || mentions i
  | .slice a b c => mentionsO a || mentionsO b || mentionsO c
  | .binop _ l r => mentions l || mentions r
  | .boolop _ vs => mentionsL vs
  | .unary _ e => mentions e
  | .compare l rest => mentions l || mentionsC rest
  | .list xs => mentionsL xs
  | .tuple xs => mentionsL xs
  | .starred e => mentions e
  | .ifExp c t e => mentions c || mentions t || mentions e
def mentionsL : List PyExpr → Bool
  | [] => false
  | x :: xs => mentions x || mentionsL xs
def mentionsKw : List (String × PyExpr) → Bool
  | [] => false
  | (_, x) :: xs => mentions x || mentionsKw xs
def mentionsC : List (CmpOp × PyExpr) → Bool
  | [] => false
  | (_, x) :: xs => mentions x || mentionsC xs
def mentionsO : Option PyExpr → Bool
  | none => false
  | some e => mentions e
end

/-- `pop(stack, k, …)` with a literal k, whose other arguments do not mention the stack -/
def popCount? : PyExpr → Option Nat
  | .call (.name "pop") (.name "stack" :: .cint k :: rest) kw =>
      if 0 ≤ k ∧ !mentionsL rest ∧ !mentionsKw kw then some k.toNat else none
  | _ => none

/-- abstract effect of one statement: (pops, pushes) or none = "touches the stack in an unmodelled way" -/
def stmtEffect : PyStmt → Option (Nat × Nat)
  | .assign _ v =>
      match popCount? v with
      | some k => some (k, 0)
      | none => if mentions v then none else some (0, 0)
  | .expr (.call (.attr (.name "stack") "append") [a] []) => if mentions a then none else some (0, 1)
  | .expr e => match popCount? e with
      | some k => some (k, 0)
      | none => if mentions e then none else some (0, 0)
  | .pass => some (0, 0)
  | _ => none

/-- straight-line composition: total pops below the starting height, net pushes -/
def seqEffect : List PyStmt → Option (Nat × Nat)
  | [] => some (0, 0)
  | s :: rest => do
      let (p1, q1) ← stmtEffect s
      let (p2, q2) ← seqEffect rest
      -- after s: height -p1 +q1 ; rest pops p2 of which min(p2,q1) come from what s pushed
      pure (p1 + (p2 - q1), (q1 - p2) + q2)

def okEntry (e : Gen.Entry) : Bool :=
  match e.body with
  | none => false
  | some b => match seqEffect b with
    | some (p, _) => (p : Int) == e.arity || e.arity ≤ 0 && p == 0
    | none => false

def analysable : List Gen.Entry := Gen.elements.filter okEntry
#eval (analysable.length, Gen.elements.length)
#eval (Gen.elements.filter (fun e => !okEntry e)).map (fun e => String.ofList (e.key.map Char.ofNat))

theorem analysable_ok : analysable.all okEntry = true := by decide +kernel
