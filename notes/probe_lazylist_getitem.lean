structure LL where
  src : List Int
  pos : Nat
  gen : List Int
deriving Repr

def LL.Inv (l : LL) : Prop := l.gen = l.src.take l.pos ∧ l.pos ≤ l.src.length

/-- `__next__`: pull one item from the raw iterator into the cache. -/
def LL.next (l : LL) : Option Int × LL :=
  match l.src[l.pos]? with
  | some x => (some x, { l with pos := l.pos + 1, gen := l.gen ++ [x] })
  | none => (none, l)

/-- pull `k` more items (the loops in has_ind / __getitem__) -/
def LL.pullN : Nat → LL → LL
  | 0, l => l
  | k+1, l => match l.next with
    | (some _, l') => LL.pullN k l'
    | (none, l') => l'

/-- `__getitem__` for a non-negative position -/
def LL.getItem (l : LL) (i : Nat) : Int × LL :=
  if i < l.gen.length then (l.gen[i]?.getD 0, l)
  else
    let l' := l.pullN (i + 1 - l.gen.length)
    (if l'.gen = [] then 0 else l'.gen[i % l'.gen.length]?.getD 0, l')

def oracleGet (xs : List Int) (i : Nat) : Int :=
  if xs = [] then 0 else xs[i % xs.length]?.getD 0

theorem next_inv (l : LL) (h : l.Inv) : (l.next).2.Inv ∧ (l.next).2.src = l.src := by
  unfold LL.next
  cases hx : l.src[l.pos]? with
  | none => exact ⟨h, rfl⟩
  | some x =>
    have hlt : l.pos < l.src.length := by
      rcases List.getElem?_eq_some_iff.mp hx with ⟨hh, _⟩; exact hh
    refine ⟨⟨?_, by simp only; omega⟩, rfl⟩
    simp only
    rw [h.1, List.take_add_one, hx]; rfl

theorem pullN_inv (k : Nat) (l : LL) (h : l.Inv) : (l.pullN k).Inv ∧ (l.pullN k).src = l.src := by
  induction k generalizing l with
  | zero => exact ⟨h, rfl⟩
  | succ k ih =>
    unfold LL.pullN
    have hn := next_inv l h
    cases hx : l.next with
    | mk o l' =>
      rw [hx] at hn
      cases o with
      | none => exact hn
      | some _ => have := ih l' hn.1; exact ⟨this.1, this.2.trans hn.2⟩

#print axioms pullN_inv

theorem next_pos (l : LL) (h : l.Inv) :
    (l.next).2.pos = min (l.pos + 1) l.src.length := by
  unfold LL.next
  cases hx : l.src[l.pos]? with
  | none =>
    have : l.src.length ≤ l.pos := List.getElem?_eq_none_iff.mp hx
    have := h.2; simp only; omega
  | some x =>
    have hlt : l.pos < l.src.length := by
      rcases List.getElem?_eq_some_iff.mp hx with ⟨hh, _⟩; exact hh
    simp only; omega

theorem pullN_pos (k : Nat) (l : LL) (h : l.Inv) :
    (l.pullN k).pos = min (l.pos + k) l.src.length := by
  induction k generalizing l with
  | zero => have := h.2; simp [LL.pullN]; omega
  | succ k ih =>
    unfold LL.pullN
    have hn := next_inv l h
    have hp := next_pos l h
    cases hx : l.next with
    | mk o l' =>
      rw [hx] at hn hp
      cases o with
      | none =>
        -- next returned none: pos unchanged and at the end
        have hnone : l.src[l.pos]? = none := by
          unfold LL.next at hx
          cases hy : l.src[l.pos]? with
          | none => rfl
          | some y => rw [hy] at hx; simp at hx
        have hle : l.src.length ≤ l.pos := List.getElem?_eq_none_iff.mp hnone
        have := h.2
        simp only at hp ⊢; omega
      | some _ =>
        have := ih l' hn.1
        simp only at hp ⊢
        rw [this, hn.2, hp]; omega

theorem getItem_correct (l : LL) (h : l.Inv) (i : Nat) :
    (l.getItem i).1 = oracleGet l.src i ∧ (l.getItem i).2.Inv ∧ (l.getItem i).2.src = l.src := by
  unfold LL.getItem
  by_cases hi : i < l.gen.length
  · rw [if_pos hi]
    refine ⟨?_, h, rfl⟩
    have hg := h.1
    have hlen : l.gen.length = l.pos := by rw [hg, List.length_take]; have := h.2; omega
    have hsrc : i < l.src.length := by have := h.2; omega
    have hne : l.src ≠ [] := by intro e; rw [e] at hsrc; simp at hsrc
    unfold oracleGet
    simp only [hne, if_false]
    rw [Nat.mod_eq_of_lt hsrc, hg, List.getElem?_take]
    simp [show i < l.pos by omega]
  · rw [if_neg hi]
    have hI := pullN_inv (i + 1 - l.gen.length) l h
    have hP := pullN_pos (i + 1 - l.gen.length) l h
    have hlen : l.gen.length = l.pos := by rw [h.1, List.length_take]; have := h.2; omega
    refine ⟨?_, hI.1, hI.2⟩
    generalize hl' : l.pullN (i + 1 - l.gen.length) = l' at hI hP
    have hg' : l'.gen = l.src.take l'.pos := by rw [hI.1.1, hI.2]
    have hpos : l'.pos = min (i + 1) l.src.length := by rw [hP]; omega
    unfold oracleGet
    by_cases hs : l.src = []
    · have : l'.gen = [] := by rw [hg', hs]; simp
      simp [this, hs]
    · have hlpos : 0 < l.src.length := List.length_pos_iff.mpr hs
      have hgne : l'.gen ≠ [] := by
        intro e
        have h0 : (l.src.take l'.pos).length = 0 := by rw [← hg', e]; rfl
        rw [List.length_take] at h0; omega
      simp only [hgne, hs, if_false]
      by_cases hfull : i + 1 ≤ l.src.length
      · -- index exists: cache has exactly i+1 items
        have hp' : l'.pos = i + 1 := by omega
        have hgl : l'.gen.length = i + 1 := by rw [hg', List.length_take]; omega
        rw [hgl, Nat.mod_eq_of_lt (by omega : i < i + 1), Nat.mod_eq_of_lt (by omega : i < l.src.length)]
        rw [hg', List.getElem?_take]; simp [hp']
      · -- past the end: whole list cached, wrap around
        have hp' : l'.pos = l.src.length := by omega
        have : l'.gen = l.src := by rw [hg', hp', List.take_length]
        rw [this]

#print axioms getItem_correct
