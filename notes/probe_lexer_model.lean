import Parser
/-! Probe: executable model of vyxal/lexer.py `tokenise` (variables_as_digraphs = False). -/
namespace Vy

def isDig (c : Nat) : Bool := 48 ≤ c && c ≤ 57
def cDot : Nat := 46
def cDeg : Nat := 176
def isNumCh (c : Nat) : Bool := isDig c || c = cDot || c = cDeg
def isDigraphPrefix (c : Nat) : Bool := c = 107 || c = 8710 || c = 248 || c = 222 || c = 168  -- k ∆ ø Þ ¨

/-- scan a string body up to the delimiter; backslash escapes only when `esc` (back-quote strings).
    Returns (value, rest after the closing delimiter if any). -/
def scanString (delim : Nat) (esc : Bool) : List Nat → List Nat → List Nat × List Nat
  | [], acc => (acc.reverse, [])
  | c :: cs, acc =>
    if c = delim then (acc.reverse, cs)
    else if esc && c = 92 then
      match cs with
      | [] => (acc.reverse, [])                    -- trailing backslash is dropped
      | d :: ds => scanString delim esc ds (d :: 92 :: acc)
    else scanString delim esc cs (c :: acc)
termination_by l _ => l.length

/-- continue a number token: `deg` = a ° was seen, `dots` = points in the current part -/
def scanNumber : List Nat → Bool → Nat → List Nat → List Nat × List Nat
  | [], _, _, acc => (acc.reverse, [])
  | c :: cs, deg, dots, acc =>
    if isDig c then scanNumber cs deg dots (c :: acc)
    else if c = cDot then (if dots = 0 then scanNumber cs deg 1 (c :: acc) else (acc.reverse, c :: cs))
    else if c = cDeg then (if deg then (acc.reverse, c :: cs) else scanNumber cs true 0 (c :: acc))
    else (acc.reverse, c :: cs)

def takeLetters : List Nat → List Nat → List Nat × List Nat
  | [], acc => (acc.reverse, [])
  | c :: cs, acc => if isLetter c then takeLetters cs (c :: acc) else (acc.reverse, c :: cs)

def skipComment : List Nat → List Nat
  | [] => []
  | c :: cs => if c = 10 then cs else skipComment cs

def tokeniseF : Nat → List Nat → List Token
  | 0, _ => []
  | _, [] => []
  | n + 1, c :: cs =>
    if c = 92 then                                   -- backslash: character literal
      match cs with
      | [] => []
      | d :: r => ⟨.character, [d]⟩ :: tokeniseF n r
    else if c = 96 then let (v, r) := scanString 96 true cs []; ⟨.string, v⟩ :: tokeniseF n r
    else if c = 187 then let (v, r) := scanString 187 false cs []; ⟨.cnum, v⟩ :: tokeniseF n r
    else if c = 171 then let (v, r) := scanString 171 false cs []; ⟨.cstr, v⟩ :: tokeniseF n r
    else if isNumCh c then
      if c = 48 && !(match cs with | d :: _ => d = cDeg || d = cDot | [] => false) then
        ⟨.number, [48]⟩ :: tokeniseF n cs
      else
        let (v, r) := scanNumber cs (c = cDeg) (if c = cDot then 1 else 0) [c]
        ⟨.number, v⟩ :: tokeniseF n r
    else if c = 8219 then                            -- ‛ two-character string
      match cs with
      | [] => [⟨.string, []⟩]
      | [a] => [⟨.string, [a]⟩]
      | a :: b :: r => ⟨.string, [a, b]⟩ :: tokeniseF n r
    else if c = 8594 then let (v, r) := takeLetters cs []; ⟨.vset, v⟩ :: tokeniseF n r
    else if c = 8592 then let (v, r) := takeLetters cs []; ⟨.vget, v⟩ :: tokeniseF n r
    else if c = 35 then tokeniseF n (skipComment cs)
    else if isDigraphPrefix c then
      match cs with
      | [] => [⟨.general, [c]⟩]
      | d :: r => if d = 124 then ⟨.general, [c]⟩ :: tokeniseF n (d :: r) else ⟨.general, [c, d]⟩ :: tokeniseF n r
    else if c = 8314 then                            -- ⁺ code-page number
      match cs with
      | [] => []
      | d :: r => ⟨.cpnum, [d]⟩ :: tokeniseF n r
    else ⟨.general, [c]⟩ :: tokeniseF n cs

def tokenise (s : List Nat) : List Token := tokeniseF (s.length + 1) s
end Vy
