/-! Probe for C06 / C18: quoting, the back-quote branch of the lexer, the transpiler's hand-written
    string escaping, and a decoder for the body of a Python "..." literal. -/
namespace Q

abbrev Str := List Nat
def cBS : Nat := 92      -- backslash
def cBQ : Nat := 96      -- back-quote
def cDQ : Nat := 34      -- double quote
def cNL : Nat := 10

/-- `quotify` on a string: backslash ↦ two backslashes, back-quote ↦ backslash back-quote -/
def escBB : Str → Str
  | [] => []
  | c :: cs => if c = cBS then cBS :: cBS :: escBB cs else if c = cBQ then cBS :: cBQ :: escBB cs else c :: escBB cs

/-- the lexer's back-quote string body scanner (value, rest after the closing delimiter) -/
def scanBQ : Str → Str → Str × Str
  | [], acc => (acc.reverse, [])
  | c :: cs, acc =>
    if c = cBQ then (acc.reverse, cs)
    else if c = cBS then
      match cs with
      | [] => (acc.reverse, [])
      | d :: ds => scanBQ ds (d :: cBS :: acc)
    else scanBQ cs (c :: acc)
termination_by l _ => l.length

/-- `transpile_token` STRING: the manual escaping loop -/
def escapeString : Str → Str
  | [] => []
  | c :: cs =>
    if c = cBS then
      match cs with
      | [] => [cBS]                                   -- "\\" + "" : a lone backslash
      | d :: ds => if d = cBQ then cBQ :: escapeString ds else cBS :: d :: escapeString ds
    else if c = cDQ then cBS :: cDQ :: escapeString cs
    else if c = cNL then cBS :: 110 :: escapeString cs
    else c :: escapeString cs
termination_by l => l.length

/-- body of a Python "..." literal, for the escapes that can arise here: `\\`, `\"`, `\n`;
    any other `\c` is kept as two characters (CPython's behaviour for unknown escapes);
    a raw quote, a raw newline or a trailing lone backslash is not a literal body -/
def pyStringBody : Str → Option Str
  | [] => some []
  | c :: cs =>
    if c = cDQ ∨ c = cNL then none
    else if c = cBS then
      match cs with
      | [] => none
      | d :: ds =>
        (pyStringBody ds).map (fun r =>
          if d = cBS then cBS :: r else if d = cDQ then cDQ :: r else if d = 110 then cNL :: r else cBS :: d :: r)
    else (pyStringBody cs).map (c :: ·)
termination_by l => l.length

/-- lexing the quoted text gives back exactly the escaped body -/
theorem scanBQ_quote (s : Str) (acc : Str) : scanBQ (escBB s ++ [cBQ]) acc = (acc.reverse ++ escBB s, []) := by
  induction s generalizing acc with
  | nil => simp [escBB, scanBQ]
  | cons c cs ih =>
    by_cases h1 : c = cBS
    · subst h1
      have : cBS ≠ cBQ := by decide
      simp only [escBB, if_true, List.cons_append]
      rw [scanBQ.eq_def]; simp only [this, if_false, if_true]
      rw [ih]; simp
    · by_cases h2 : c = cBQ
      · subst h2
        have : cBS ≠ cBQ := by decide
        simp only [escBB, h1, if_false, if_true, List.cons_append]
        rw [scanBQ.eq_def]; simp only [this, if_false, if_true]
        rw [ih]; simp
      · simp only [escBB, h1, h2, if_false, List.cons_append]
        rw [scanBQ.eq_def]; simp only [h1, h2, if_false]
        rw [ih]; simp

/-- C06 (dictionary compression off): quote, lex, escape for Python, decode — the identity, for every string -/
theorem quote_eval_raw (s : Str) : pyStringBody (escapeString (escBB s)) = some s := by
  induction s with
  | nil => simp [escBB, escapeString, pyStringBody]
  | cons c cs ih =>
    by_cases h1 : c = cBS
    · subst h1
      have hq : cBS ≠ cBQ := by decide
      have hd : ¬ (cBS = cDQ ∨ cBS = cNL) := by decide
      simp only [escBB, if_true]
      rw [escapeString.eq_def]; simp only [if_true, hq, if_false]
      rw [pyStringBody.eq_def]; simp only [hd, if_false, if_true, ih, Option.map_some]
    · by_cases h2 : c = cBQ
      · subst h2
        have hd : ¬ (cBQ = cDQ ∨ cBQ = cNL) := by decide
        have hb : cBQ ≠ cBS := by decide
        simp only [escBB, hb, if_false, if_true]
        rw [escapeString.eq_def]; simp only [if_true]
        rw [pyStringBody.eq_def]; simp only [hd, hb, if_false, ih, Option.map_some]
      · by_cases h3 : c = cDQ
        · subst h3
          have hd : ¬ (cBS = cDQ ∨ cBS = cNL) := by decide
          have h5 : cDQ ≠ cBS := by decide
          simp only [escBB, h1, h2, if_false]
          rw [escapeString.eq_def]; simp only [h1, if_false, if_true]
          rw [pyStringBody.eq_def]; simp only [hd, if_false, if_true, h5, ih, Option.map_some]
        · by_cases h4 : c = cNL
          · subst h4
            have hd : ¬ (cBS = cDQ ∨ cBS = cNL) := by decide
            have h6 : (110 : Nat) ≠ cBS := by decide
            have h7 : (110 : Nat) ≠ cDQ := by decide
            simp only [escBB, h1, h2, if_false]
            rw [escapeString.eq_def]; simp only [h1, h3, if_false, if_true]
            rw [pyStringBody.eq_def]; simp only [hd, if_false, if_true, h6, h7, ih, Option.map_some]
          · simp only [escBB, h1, h2, if_false]
            rw [escapeString.eq_def]; simp only [h1, h3, h4, if_false]
            rw [pyStringBody.eq_def]; simp only [h3, h4, or_self, h1, if_false, ih, Option.map_some]

/-- backslashes are paired the way both escaping loops read them -/
def wellPaired : Str → Bool
  | [] => true
  | c :: cs =>
    if c = cBS then
      match cs with
      | [] => false
      | _ :: ds => wellPaired ds
    else wellPaired cs
termination_by l => l.length

/-- C18, string path: a well-paired string — in particular everything the back-quote lexer produces —
    is escaped into the body of exactly one Python string literal: no raw quote, no raw newline,
    no dangling backslash. For **every** such string. -/
theorem escape_is_one_literal (s : Str) (h : wellPaired s = true) :
    (pyStringBody (escapeString s)).isSome = true := by
  induction s using escapeString.induct with
  | case1 => simp [escapeString, pyStringBody]
  | case2 => rw [wellPaired.eq_def] at h; simp at h
  | case3 ds ih =>
    rw [wellPaired.eq_def] at h; simp only [if_true] at h
    rw [escapeString.eq_def]; simp only [if_true]
    have hd : ¬ (cBQ = cDQ ∨ cBQ = cNL) := by decide
    have hb : cBQ ≠ cBS := by decide
    rw [pyStringBody.eq_def]; simp only [hd, hb, if_false]
    have := ih h
    cases hp : pyStringBody (escapeString ds) with
    | none => rw [hp] at this; simp at this
    | some r => simp
  | case4 d ds hdq ih =>
    rw [wellPaired.eq_def] at h; simp only [if_true] at h
    rw [escapeString.eq_def]; simp only [if_true, hdq, if_false]
    have hd : ¬ (cBS = cDQ ∨ cBS = cNL) := by decide
    rw [pyStringBody.eq_def]; simp only [hd, if_false, if_true]
    have := ih h
    cases hp : pyStringBody (escapeString ds) with
    | none => rw [hp] at this; simp at this
    | some r => simp
  | case5 cs hbs ih =>
    rw [wellPaired.eq_def] at h
    have h5 : cDQ ≠ cBS := by decide
    simp only [h5, if_false] at h
    rw [escapeString.eq_def]; simp only [h5, if_false, if_true]
    have hd : ¬ (cBS = cDQ ∨ cBS = cNL) := by decide
    rw [pyStringBody.eq_def]; simp only [hd, if_false, if_true]
    have := ih h
    cases hp : pyStringBody (escapeString cs) with
    | none => rw [hp] at this; simp at this
    | some r => simp
  | case6 cs hbs hdq ih =>
    rw [wellPaired.eq_def] at h
    have h5 : cNL ≠ cBS := by decide
    simp only [h5, if_false] at h
    rw [escapeString.eq_def]
    have h6 : cNL ≠ cDQ := by decide
    simp only [h5, h6, if_false, if_true]
    have hd : ¬ (cBS = cDQ ∨ cBS = cNL) := by decide
    rw [pyStringBody.eq_def]; simp only [hd, if_false, if_true]
    have := ih h
    cases hp : pyStringBody (escapeString cs) with
    | none => rw [hp] at this; simp at this
    | some r => simp
  | case7 c cs hbs hdq hnl ih =>
    rw [wellPaired.eq_def] at h
    simp only [hbs, if_false] at h
    rw [escapeString.eq_def]; simp only [hbs, hdq, hnl, if_false]
    rw [pyStringBody.eq_def]; simp only [hdq, hnl, or_self, hbs, if_false]
    have := ih h
    cases hp : pyStringBody (escapeString cs) with
    | none => rw [hp] at this; simp at this
    | some r => simp

/-- the hypothesis is not decoration: a two-character string ending in a backslash is *not* well paired,
    and its escaped form is not a literal body (this is finding F24: `‛a\` with the D flag) -/
theorem wellPaired_lone : wellPaired [cBS] = false := by
  rw [wellPaired.eq_def]; simp
example : wellPaired [97, cBS] = false := by
  rw [wellPaired.eq_def]
  have : (97 : Nat) ≠ cBS := by decide
  simp only [this, if_false]
  exact wellPaired_lone
example : pyStringBody (escapeString [97, cBS]) = none := by
  rw [escapeString.eq_def]; simp [cBS, cDQ, cNL]
  rw [escapeString.eq_def]; simp
  rw [pyStringBody.eq_def]; simp [cBS, cDQ, cNL]
  rw [pyStringBody.eq_def]; simp [cBS, cDQ, cNL]

#print axioms quote_eval_raw
#print axioms scanBQ_quote
#print axioms escape_is_one_literal
end Q
